"""C17 - text blocks keep one line per entry and flatten content losslessly.

Decides the invariant part: C17.provenance (only outputs of str.splitlines() without keepends, the empty
string, other blocks' lines, or per-line maps / sub-lists of such lists ever enter the line buffer),
C17.copy (blocks never share a buffer), C17.str (string form = every header and content line followed
by exactly one EOL, '' for an empty block), C17.flatten-shape (flatten recurses into lists and dict
values in order, None contributes nothing, the only filter is the empty-string skip; append keeps
empty strings).  The algebraic laws (round trip, trim, chunk) are value-level and not decided.
"""
from __future__ import annotations

import ast
from typing import Dict, List, Optional, Set, Tuple

from ..model import FuncInfo, ClassInfo, iter_own_nodes, strip_opt
from ..absval import Abs
from ..mutation import Mutations, is_fresh
from .c18 import const_str, resolve_local, join_shape


class Clean:
    """Judgement `clean(e)`: e is a list of strings none of which contains a line break."""

    def __init__(self, ctx, mut: Mutations):
        self.ctx, self.mut = ctx, mut
        self.abs = Abs(ctx.prog, ctx.cg, ctx.flow)
        self.notes: List[str] = []

    def clean_list(self, fn: FuncInfo, e: ast.AST, depth: int = 0) -> Tuple[Optional[bool], str]:
        ctx = self.ctx
        env = ctx.cg.env(fn)
        if depth > 8:
            return None, 'too deep'
        if isinstance(e, ast.List):
            if not e.elts:
                return True, 'empty list'
            rs = [self.clean_str(fn, x, depth + 1) for x in e.elts]
            if all(r[0] for r in rs):
                return True, 'list of line-break free strings'
            return next(r for r in rs if not r[0])
        if isinstance(e, ast.Call):
            f = e.func
            if isinstance(f, ast.Attribute) and f.attr == 'splitlines':
                keep = e.args[0] if e.args else next((k.value for k in e.keywords if k.arg == 'keepends'), None)
                if keep is None or (isinstance(keep, ast.Constant) and not keep.value):
                    return True, 'str.splitlines() splits at every line boundary Python recognises'
                return False, 'splitlines(keepends=True) keeps the line breaks in the entries'
            if isinstance(f, ast.Attribute) and f.attr in ('split',):
                return False, (f'`{ast.unparse(e)[:40]}` splits at one separator only: other line-break characters '
                               f'(\\r, \\x0b, \\x0c, \\x1c-\\x1e, \\x85, \\u2028, \\u2029) stay inside an entry')
            fname = getattr(f, 'id', getattr(f, 'attr', ''))
            if fname in ('deepcopy', 'list', 'copy', 'sorted', 'reversed') and e.args:
                return self.clean_list(fn, e.args[0], depth + 1)
            if fname == 'flatten_to_strlist' and e.args:
                r = self.clean_list(fn, e.args[0], depth + 1)
                return (r[0], 'flatten of ' + r[1])
            if fname == 'trim_list' and e.args:
                r = self.clean_list(fn, e.args[0], depth + 1)
                return (r[0], 'sub-list (trim_list) of ' + r[1])
            if isinstance(f, ast.Attribute) and f.attr == 'to_list':
                t = strip_opt(env.type_of(f.value))
                if t[0] == 'cls' and t[1].endswith('Indentizer') and e.args:
                    r = self.clean_list(fn, e.args[0], depth + 1)
                    return (r[0], 'per-line map (Indentizer.to_list, C18.map) of ' + r[1])
            return None, f'call `{ast.unparse(e)[:50]}` is not a known producer of line lists'
        if isinstance(e, ast.Attribute):
            t = strip_opt(self.abs.type_at(fn, e.value, e) if self.ctx.prog.parent(e) is not None
                          else env.type_of(e.value))
            if e.attr in ('lines', '_lines', '_header') and t[0] == 'cls' and self._is_textblock(t[1]):
                return True, f'lines of a TextBlock (invariant, inductively)'
            return None, f'`{ast.unparse(e)[:40]}` is not recognised'
        if isinstance(e, ast.BinOp) and isinstance(e.op, ast.Add):
            a, b = self.clean_list(fn, e.left, depth + 1), self.clean_list(fn, e.right, depth + 1)
            if a[0] and b[0]:
                return True, 'concatenation of clean lists'
            return (a if not a[0] else b)
        if isinstance(e, ast.IfExp):
            a, b = self.clean_list(fn, e.body, depth + 1), self.clean_list(fn, e.orelse, depth + 1)
            if a[0] and b[0]:
                return True, 'both alternatives are clean'
            return (a if not a[0] else b)
        if isinstance(e, ast.Subscript) and isinstance(e.slice, ast.Slice):
            return self.clean_list(fn, e.value, depth + 1)
        if isinstance(e, ast.Name):
            params = [a.arg for a in fn.params()]
            if e.id in params and e.id not in env._assign_sites:
                return None, f'parameter `{e.id}`'
            return self.clean_local(fn, e.id, depth + 1)
        return None, f'`{ast.unparse(e)[:40]}` is not recognised'

    def _is_textblock(self, fq: str) -> bool:
        return self.ctx.prog.is_subclass(fq, 'dznpy.text_gen.TextBlock')

    def clean_local(self, fn: FuncInfo, name: str, depth: int) -> Tuple[Optional[bool], str]:
        """A local list: every definition is clean and every growth adds clean content."""
        env = self.ctx.cg.env(fn)
        sites = env._assign_sites.get(name, [])
        if not sites:
            return None, f'`{name}` has no local definition'
        for s in sites:
            if s[0] != 'expr':
                return None, f'`{name}` is bound by a loop / unpacking'
            r = self.clean_list(fn, s[1], depth + 1)
            if not r[0]:
                return r
        for n in iter_own_nodes(fn.node):
            if isinstance(n, ast.Call) and isinstance(n.func, ast.Attribute) and isinstance(n.func.value, ast.Name) \
                    and n.func.value.id == name:
                if n.func.attr == 'extend' and n.args:
                    r = self.clean_list(fn, n.args[0], depth + 1)
                    if not r[0]:
                        return r[0], f'`{name}.extend(...)`: ' + r[1]
                elif n.func.attr in ('append', 'insert') and n.args:
                    r = self.clean_str(fn, n.args[-1], depth + 1, at=n)
                    if not r[0]:
                        return r[0], f'`{name}.{n.func.attr}(...)`: ' + r[1]
            if isinstance(n, ast.AugAssign) and isinstance(n.target, ast.Name) and n.target.id == name:
                r = self.clean_list(fn, n.value, depth + 1)
                if not r[0]:
                    return r
        return True, f'local list `{name}` built from clean pieces only'

    def clean_str(self, fn: FuncInfo, e: ast.AST, depth: int = 0, at: Optional[ast.AST] = None) -> Tuple[Optional[bool], str]:
        s = const_str(self.ctx, fn, e)
        if s is not None:
            ok = not any(ch in s for ch in '\n\r\x0b\x0c\x1c\x1d\x1e\x85  ')
            return ok, 'constant without line break' if ok else f'constant {s!r} contains a line break'
        if isinstance(e, ast.Name) and at is not None:
            # a string known to be empty at this point:  len(x) > 0 is false / not x
            for cond, pol in self.abs.facts_at(at):
                txt = ast.unparse(cond)
                if (txt == f'len({e.id}) > 0' and not pol) or (txt == e.id and not pol) or \
                        (txt == f'len({e.id}) == 0' and pol) or (txt == f"{e.id} == ''" and pol):
                    return True, 'the empty string (guarded)'
        if isinstance(e, ast.Name):
            # loop variable over a clean list
            env = self.ctx.cg.env(fn)
            for st in env._assign_sites.get(e.id, []):
                if st[0] == 'elem':
                    r = self.clean_list(fn, st[1], depth + 1)
                    if r[0]:
                        return True, 'element of ' + r[1]
        return False, f'string `{ast.unparse(e)[:40]}` is arbitrary text: it may contain line breaks'


def check(ctx):
    run, prog, cg = ctx.run, ctx.prog, ctx.cg
    run.explanation = (
        'Decided (invariant part only): C17.provenance - every write to the TextBlock line buffer takes its strings '
        'from str.splitlines() without keepends, the guarded empty string, another block\'s lines, or a per-line '
        'map / sub-list of such a list: no stored line contains a line break and each physical line is its own '
        'entry; C17.copy - the setter copies, blocks never share a buffer; C17.str - __str__ is EOL.join(header + '
        'lines) + EOL, or the empty string for an empty block; C17.flatten-shape - flatten_to_strlist recurses into '
        'lists and dict values in order, None contributes nothing, the only filter is the empty-string skip, and '
        'append() keeps empty strings. Not decided: the flattening law against a reference flattener, the round '
        'trip TextBlock(str(tb)).lines == tb.lines, trim removing only leading/trailing blanks, chunk/cond_chunk '
        'results - equalities over all nestings and strings, out of reach without running the code.')
    run.assume('callers of the public `lines` setter hand it strings without line breaks ("put into a text block" '
               'means constructor / append / + / +=)')
    run.assume('a bullet glyph contains no line break (C18)')
    run.trusted = ['python ast module', 'dznverif E1/E2/E3c']

    tb = prog.cls('text_gen', 'TextBlock')
    mut = Mutations(prog, cg)
    mut.solve()
    cl = Clean(ctx, mut)

    # ---- C17.provenance ---------------------------------------------------------------------------------------------
    n_writes = 0
    for m in list(tb.methods.values()) + list(tb.setters.values()):
        for n in iter_own_nodes(m.node):
            # assignments  self._lines / self._header / self.lines = E
            if isinstance(n, ast.Assign):
                for t in n.targets:
                    if isinstance(t, ast.Attribute) and isinstance(t.value, ast.Name) and t.value.id == 'self' \
                            and t.attr in ('_lines', '_header', 'lines'):
                        n_writes += 1
                        ok, why = cl.clean_list(m, n.value)
                        if ok is None and m.is_setter:
                            # the setter stores (a copy of) its parameter: judged at the internal call sites below
                            run.holds('C17.provenance', m.module.name, m.qualname, n,
                                      'setter stores its argument; the internal callers are judged separately', node=n)
                            continue
                        if ok is None:
                            run.error('C17.provenance', m.module.name, m.qualname, n,
                                      f'cannot classify the source of the buffer content: {why}', node=n)
                        else:
                            run.add('C17.provenance', m.module.name, m.qualname, n, ok,
                                    f'buffer {t.attr} <- {why}', node=n)
            # growth  self.lines.extend(E) / append(E)
            if isinstance(n, ast.Call) and isinstance(n.func, ast.Attribute) and n.func.attr in ('extend', 'append', 'insert') \
                    and ast.unparse(n.func.value) in ('self.lines', 'self._lines', 'self._header'):
                n_writes += 1
                if n.func.attr == 'extend':
                    ok, why = cl.clean_list(m, n.args[0])
                else:
                    ok, why = cl.clean_str(m, n.args[-1], at=n)
                if ok is None:
                    run.error('C17.provenance', m.module.name, m.qualname, n,
                              f'cannot classify the source of the appended content: {why}', node=n)
                else:
                    run.add('C17.provenance', m.module.name, m.qualname, n, ok, f'{n.func.attr}: {why}', node=n)
    run.floor('C17.provenance', 5)
    # subclasses (Comment) do not write the buffer directly
    for c in prog.classes.values():
        if c is not tb and prog.is_subclass(c.fq, tb.fq):
            for m in c.methods.values():
                for n in iter_own_nodes(m.node):
                    if isinstance(n, ast.Attribute) and isinstance(n.value, ast.Name) and n.value.id == 'self' and \
                            n.attr in ('_lines', '_header') and isinstance(n.ctx, ast.Store):
                        run.violation('C17.provenance', m.module.name, m.qualname, ctx.flow.enclosing_stmt(n),
                                      'a TextBlock subclass writes the line buffer directly', node=n)
    # the branch that keeps blank lines: ''.splitlines() == [] so the empty string must be appended as itself
    app = tb.methods.get('append')
    if app is None:
        run.error('C17.provenance', tb.module.name, 'TextBlock', 'append', 'TextBlock.append vanished')
    else:
        has_empty_branch = False
        for n in iter_own_nodes(app.node):
            if isinstance(n, ast.Call) and isinstance(n.func, ast.Attribute) and n.func.attr == 'append' and n.args:
                r = cl.clean_str(app, n.args[0], at=n)
                if r[0] and 'empty string' in r[1]:
                    has_empty_branch = True
        run.add('C17.provenance', app.module.name, app.qualname, 'blank-line branch', has_empty_branch,
                'an empty string contributes one blank line (appended as itself, since "".splitlines() == [])'
                if has_empty_branch else
                'no branch appends the empty string itself: "".splitlines() == [] makes blank lines vanish')
        # flatten is called with skip_empty_strings=False inside append
        for n in iter_own_nodes(app.node):
            if isinstance(n, ast.Call) and getattr(n.func, 'id', '') == 'flatten_to_strlist':
                kw = {k.arg: k.value for k in n.keywords}
                skip = kw.get('skip_empty_strings', n.args[1] if len(n.args) > 1 else None)
                ok = isinstance(skip, ast.Constant) and skip.value is False
                run.add('C17.flatten-shape', app.module.name, app.qualname, n, ok,
                        'append() flattens with skip_empty_strings=False' if ok else
                        'append() drops empty strings while flattening: blank lines vanish', node=n)
    # internal callers of the setter
    for m in tb.methods.values():
        for n in iter_own_nodes(m.node):
            if isinstance(n, ast.Assign) and any(isinstance(t, ast.Attribute) and t.attr == 'lines' and
                                                 isinstance(t.value, ast.Name) and t.value.id == 'self' for t in n.targets):
                pass  # judged above (target 'lines')

    # ---- C17.copy ---------------------------------------------------------------------------------------------------------
    for m in list(tb.methods.values()) + list(tb.setters.values()):
        for n in iter_own_nodes(m.node):
            if isinstance(n, ast.Assign):
                for t in n.targets:
                    if isinstance(t, ast.Attribute) and isinstance(t.value, ast.Name) and t.value.id == 'self' \
                            and t.attr in ('_lines', '_header'):
                        rs = mut.roots(m, n.value)
                        alias = [r for r in rs if not is_fresh(r)]
                        run.add('C17.copy', m.module.name, m.qualname, n, not alias,
                                f'{t.attr} is assigned a fresh list' if not alias else
                                f'{t.attr} aliases caller data ({alias[0][0]} {alias[0][1]}): two blocks share a buffer',
                                node=n)
    add = tb.methods.get('__add__')
    if add is not None:
        bad = [r for r in mut.returns.get(add.fq, set()) if not is_fresh(r)]
        run.add('C17.copy', add.module.name, add.qualname, '__add__ result', not bad,
                '__add__ returns a new block' if not bad else '__add__ returns an operand')
    run.floor('C17.copy', 3)

    # ---- C17.str -----------------------------------------------------------------------------------------------------------
    _str_rule(ctx, tb)

    # ---- C17.flatten-shape ----------------------------------------------------------------------------------------------------
    _flatten_rule(ctx)
    # chunk / cond_chunk test emptiness with the default (skipping) flatten
    tmod = prog.module('text_gen')
    for name in ('chunk', 'cond_chunk'):
        f = tmod.functions.get(name)
        if f is None:
            run.error('C17.flatten-shape', tmod.name, name, name, f'{name} vanished')
            continue
        for n in iter_own_nodes(f.node):
            if isinstance(n, ast.Call) and getattr(n.func, 'id', '') == 'flatten_to_strlist':
                skipping = not n.keywords and len(n.args) == 1
                run.add('C17.flatten-shape', f.module.name, f.qualname, n, skipping,
                        'emptiness is tested on the flattened content without empty strings' if skipping else
                        'emptiness test keeps empty strings: an all-blank content counts as non-empty', node=n)
        # the skipping flatten of the CONTENT is an emptiness probe only: it has lost the blank entries, so it must not
        # become (part of) the block - the block is built from the content itself
        cparam = next((a.arg for a in f.params() if a.arg == 'content'), None)
        if cparam is None:
            run.error('C17.flatten-shape', f.module.name, f.qualname, 'content parameter', f'{name} has no parameter `content`')
            continue
        probes = set()
        for n in iter_own_nodes(f.node):
            if isinstance(n, ast.Assign) and len(n.targets) == 1 and isinstance(n.targets[0], ast.Name) and \
                    isinstance(n.value, ast.Call) and getattr(n.value.func, 'id', '') == 'flatten_to_strlist' and \
                    n.value.args and ast.unparse(n.value.args[0]) == cparam and \
                    not any(k.arg == 'skip_empty_strings' and isinstance(k.value, ast.Constant) and k.value.value is False
                            for k in n.value.keywords):
                probes.add(n.targets[0].id)
        bad_uses = []
        for n in iter_own_nodes(f.node):
            if isinstance(n, ast.Name) and n.id in probes and isinstance(n.ctx, ast.Load):
                par, child = prog.parent(n), n
                while isinstance(par, (ast.UnaryOp, ast.BoolOp)):
                    par, child = prog.parent(par), par
                is_test = (isinstance(par, (ast.If, ast.IfExp, ast.While)) and par.test is child) or \
                    (isinstance(par, ast.Call) and getattr(par.func, 'id', '') in ('len', 'bool', 'any'))
                if not is_test:
                    bad_uses.append(n)
        run.add('C17.flatten-shape', f.module.name, f.qualname,
                ctx.flow.enclosing_stmt(bad_uses[0]) if bad_uses else f'{name}: uses of the emptiness probe {sorted(probes)}', not bad_uses,
                'the skipping flatten of the content is used for the emptiness test only; the block is built from the content itself'
                if not bad_uses else
                f'`{bad_uses[0].id}` (the content flattened WITHOUT its empty strings) is used to build the result: blank entries '
                f'of the content are lost, the chunk is no longer content plus appendix', node=bad_uses[0] if bad_uses else None)


def _str_rule(ctx, tb: ClassInfo):
    run = ctx.run
    m = tb.methods.get('__str__')
    if m is None:
        run.error('C17.str', tb.module.name, 'TextBlock', '__str__', 'TextBlock.__str__ vanished')
        return
    rets = [n for n in iter_own_nodes(m.node) if isinstance(n, ast.Return)]
    abs_ = Abs(ctx.prog, ctx.cg, ctx.flow)
    saw_join = False
    for r in rets:
        if const_str(ctx, m, r.value) == '':
            # must be under the emptiness test of the combined lines
            facts = [(ast.unparse(c), p) for c, p in abs_.facts_at(r)]
            ok = any(not p for _t, p in facts)
            run.add('C17.str', m.module.name, m.qualname, r, ok,
                    "'' only for a block without lines" if ok else "returns '' unconditionally", node=r)
            if ok:
                # "every header and content line": the emptiness test must cover the header lines as well as the
                # content lines (a block that only has a header still renders its header)
                tested = ''
                for c, p in abs_.facts_at(r):
                    if p:
                        continue
                    for nm in ast.walk(c):
                        if isinstance(nm, (ast.Name, ast.Attribute)):
                            tested += ' ' + ast.unparse(resolve_local(ctx, m, nm))
                covers_header = 'self._header' in tested
                covers_lines = 'self._lines' in tested or 'self.lines' in tested
                run.add('C17.str', m.module.name, m.qualname, "'' guard", covers_header and covers_lines,
                        "'' only when header and content are both empty" if covers_header and covers_lines else
                        f"'' is returned when {'the content' if covers_lines else 'the header' if covers_header else 'something else'} "
                        f"is empty, whatever the {'header' if covers_lines else 'content'} holds: those lines are missing from the "
                        f"string form", node=r)
            continue
        sh = join_shape(ctx, m, r.value)
        if sh is None:
            run.error('C17.str', m.module.name, m.qualname, r, 'string form not recognised as <sep>.join(<lines>) + <suffix>',
                      node=r)
            continue
        saw_join = True
        x, sep, suffix = sh
        if sep != '\n' or suffix != '\n':
            run.violation('C17.str', m.module.name, m.qualname, r,
                          f'lines are joined with {sep!r} and terminated with {suffix!r}; every line must be followed '
                          f'by exactly one EOL', node=r)
            continue
        x = resolve_local(ctx, m, x)
        txt = ast.unparse(x)
        uses_lines = 'self._lines' in txt or 'self.lines' in txt
        uses_header = 'self._header' in txt
        ok = uses_lines and uses_header
        # header must come first
        if ok and isinstance(x, ast.IfExp):
            body = ast.unparse(x.body)
            ok = body.index('self._header') < body.index('self._lines') if 'self._lines' in body else False
        run.add('C17.str', m.module.name, m.qualname, r, ok,
                'str = EOL.join(header + lines) + EOL' if ok else
                f'the joined sequence `{txt[:60]}` is not header lines followed by content lines', node=r)
        # the join is guarded by non-emptiness (otherwise '' + EOL for an empty block)
        guarded = any(p is False for _c, p in abs_.facts_at(r)) or any(const_str(ctx, m, q.value) == '' for q in rets)
        run.add('C17.str', m.module.name, m.qualname, 'empty-block guard', guarded,
                'an empty block renders as the empty string' if guarded else 'an empty block renders as a lone EOL')
    if not saw_join:
        run.error('C17.str', m.module.name, m.qualname, '__str__', 'no join-based return found')


def _flatten_rule(ctx):
    run, prog = ctx.run, ctx.prog
    f = prog.try_func('misc_utils', 'flatten_to_strlist')
    if f is None:
        run.error('C17.flatten-shape', 'dznpy.misc_utils', '-', 'flatten_to_strlist', 'flatten_to_strlist vanished')
        return
    abs_ = Abs(prog, ctx.cg, ctx.flow)
    val = f.params()[0].arg
    skip = f.params()[1].arg if len(f.params()) > 1 else None
    seen = {'list': False, 'dict': False, 'str': False, 'none': False, 'other': False}
    for n in iter_own_nodes(f.node):
        # recursive descent
        if isinstance(n, (ast.For,)):
            facts = [(ast.unparse(c), p) for c, p in abs_.facts_at(n)]
            it = ast.unparse(n.iter)
            is_list = (f'isinstance({val}, list)', True) in facts
            is_dict = (f'isinstance({val}, dict)', True) in facts
            body_ok = len(n.body) == 1 and isinstance(n.body[0], ast.Expr) and isinstance(n.body[0].value, ast.Call) and \
                ast.unparse(n.body[0].value.func).endswith('.extend') and \
                isinstance(n.body[0].value.args[0], ast.Call) and \
                getattr(n.body[0].value.args[0].func, 'id', '') == f.name and \
                isinstance(n.body[0].value.args[0].args[0], ast.Name) and \
                n.body[0].value.args[0].args[0].id == getattr(n.target, 'id', None)
            passes_skip = body_ok and (len(n.body[0].value.args[0].args) > 1 and
                                       ast.unparse(n.body[0].value.args[0].args[1]) == skip or
                                       any(k.arg == skip and ast.unparse(k.value) == skip
                                           for k in n.body[0].value.args[0].keywords))
            if is_list:
                ok = it == val and body_ok and passes_skip
                seen['list'] = True
                run.add('C17.flatten-shape', f.module.name, f.qualname, n, ok,
                        'lists are flattened item by item, in order, with the same skip flag' if ok else
                        'the list branch does not extend the result with every item in order', node=n)
            elif is_dict:
                ok = it == f'{val}.values()' and body_ok and passes_skip
                seen['dict'] = True
                run.add('C17.flatten-shape', f.module.name, f.qualname, n, ok,
                        'dict values are flattened in iteration order' if ok else
                        f'the dict branch iterates `{it}` instead of the values', node=n)
        if isinstance(n, ast.Return):
            facts = [(ast.unparse(c), p) for c, p in abs_.facts_at(n)]
            if (f'isinstance({val}, str)', True) in facts:
                # early return inside the str branch: only for the empty string under the skip flag
                ok = any(t == skip and p for t, p in facts) and any(t in (f'len({val}) == 0', f"{val} == ''") and p or
                                                                    t == val and not p for t, p in facts)
                seen['str'] = True
                run.add('C17.flatten-shape', f.module.name, f.qualname, n, ok,
                        'a string is skipped only when it is empty and skipping is requested' if ok else
                        'strings are dropped under a different condition than "empty and skip_empty_strings"', node=n)
            elif any(t == f'{val} is None' and p for t, p in facts):
                seen['none'] = True
                run.holds('C17.flatten-shape', f.module.name, f.qualname, n, 'None contributes nothing', node=n)
        if isinstance(n, ast.Call) and ast.unparse(n.func).endswith('.append') and n.args:
            facts = [(ast.unparse(c), p) for c, p in abs_.facts_at(n)]
            arg = ast.unparse(n.args[0])
            if (f'isinstance({val}, str)', True) in facts:
                run.add('C17.flatten-shape', f.module.name, f.qualname, n, arg == val,
                        'a string contributes itself' if arg == val else f'a string contributes `{arg}`', node=n)
            elif arg == f'str({val})':
                seen['other'] = True
                run.holds('C17.flatten-shape', f.module.name, f.qualname, n, 'other values contribute str(value)', node=n)
    for k, v in seen.items():
        if not v:
            run.violation('C17.flatten-shape', f.module.name, f.qualname, f'flatten branch: {k}',
                          f'no branch of flatten_to_strlist handles {k} values as specified')
    # single accumulated result returned
    run.floor('C17.flatten-shape', 6)
