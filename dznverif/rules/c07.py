"""C07 - names in generated code denote the declaration Dezyne's scoping rules select.

Decides the lookup discipline of the generator: C07.site (every written name is resolved with find_fqn from
the referring scope required by the reference table), C07.single (a declaration leaves a FindResult only through
get_single_instance / has_one_instance), C07.kind (the kind hint matches the way the result is used),
C07.spelling (emitted C++ type names come from the resolved declaration, root-qualified; written names are only
ever lookup keys), C07.exact (whole-name equality in find_fqn, shared with C14.once).
"""
from __future__ import annotations

import ast
from typing import Dict, List, Optional, Tuple

from ..model import FuncInfo, ClassInfo, iter_own_nodes, strip_opt
from .shared import single_instance_gate
from ..absval import Abs
from ..exceptions import ExcAnalysis
from .shared import install_find_hooks


def adv_functions(ctx) -> List[FuncInfo]:
    from .shared import expanded_everywhere
    skip = expanded_everywhere(ctx)
    return [f for f in ctx.prog.all_functions() if f.module.name.startswith('dznpy.adv_shell') and f.fq not in skip]


def check(ctx):
    run, prog, cg = ctx.run, ctx.prog, ctx.cg
    run.explanation = (
        'Decided: C07.site - every place where adv_shell turns a written name (*.type_name.value, '
        'cfg.fqn_encapsulee_name) into a declaration calls find_fqn (never find_any, never a hand-rolled scan) with the '
        'referring scope of the reference table: port type <- scope enclosing the encapsulee; formal type and claim '
        'reply type <- the declaring interface\'s own scope; encapsulee <- no scope; C07.single - FindResult.items is '
        'never indexed or iterated in adv_shell; C07.kind - get_single_instance carries the kind the result is used as '
        '(Interface / Enum / Extern; encapsulee by isinstance guard); C07.spelling - written names are used only as '
        'lookup keys and every emitted type name is rendered from the resolved declaration\'s fqn with the root prefix '
        '(externs: their data value); C07.exact - find_fqn matches by whole-name equality. Not decided: that the chain '
        'computed by scope_resolution_order is the right chain (value level; C14 decides its shape).')
    run.trusted = ['python ast module', 'dznverif E1/E2']
    abs_ = Abs(prog, cg, ctx.flow)
    install_find_hooks(ctx, abs_)
    ex = ExcAnalysis(prog, cg, ctx.flow, abs_)
    fr = prog.cls('ast_view', 'FindResult')
    astm = 'dznpy.ast.'

    def norm(fn: FuncInfo, e: ast.expr) -> ast.expr:
        return ex.normalise(fn, e)

    def tname(t: tuple) -> str:
        t = strip_opt(t)
        return t[1].split('.')[-1] if t[0] == 'cls' else t[0]

    # ---- C07.site ----------------------------------------------------------------------------------------------------
    sites = []
    for fn in adv_functions(ctx):
        env = cg.env(fn)
        for c in iter_own_nodes(fn.node):
            if not isinstance(c, ast.Call):
                continue
            callees = [x for x in env.resolve_call(c) if isinstance(x, FuncInfo)]
            names = {x.qualname for x in callees if x.module.name == 'dznpy.ast_view'}
            if 'find_any' in names:
                run.violation('C07.site', fn.module.name, fn.qualname, c,
                              'suffix search (find_any) used to resolve a name in the generator: a same-named declaration '
                              'in an unrelated namespace would be picked up', node=c)
            if 'find_fqn' in names:
                sites.append((fn, c))
    def judge(fn: FuncInfo, c: ast.Call, name_arg: ast.expr, scope_arg: Optional[ast.expr], depth: int = 0):
        nname = norm(fn, name_arg)
        if isinstance(nname, ast.Name) and nname.id in [a.arg for a in fn.params()][(1 if fn.cls is not None else 0):] and depth < 3:
            # a helper that resolves the name it is handed: judged at every call of the helper, with the actual name and scope
            callers = [(f_, n_) for f_, n_, k_ in ctx.cg.callers(fn) if k_ == 'call' and isinstance(n_, ast.Call)]
            nsc = norm(fn, scope_arg) if scope_arg is not None else None
            sc_param = isinstance(nsc, ast.Name) and nsc.id in [a.arg for a in fn.params()]
            sc_none = nsc is None or (isinstance(nsc, ast.Constant) and nsc.value is None)
            if callers and (sc_param or sc_none):
                for f_, n_ in callers:
                    b = prog.bind_call(f_.module, n_, callee=fn)
                    na = b.get(nname.id)
                    if na is None:
                        run.error('C07.site', f_.module.name, f_.qualname, n_, f'no argument for the name parameter `{nname.id}` of {fn.qualname}', node=n_)
                        continue
                    judge(f_, n_, na, b.get(nsc.id) if sc_param else None, depth + 1)
                return
        txt = ast.unparse(nname)
        nscope = norm(fn, scope_arg) if scope_arg is not None and not (
            isinstance(scope_arg, ast.Constant) and scope_arg.value is None) else None
        stxt = ast.unparse(nscope) if nscope is not None else None
        ok, why = None, ''
        if txt.endswith('.type_name.value'):
            owner = nname.value.value          # <owner>.type_name.value
            ot = tname(abs_.type_at(fn, owner, c))
            if ot == 'Port':
                # scope must be <encapsulee>.parent_ns.fqn (when the helper gets the scope from its callers: at every call site)
                views = [(fn, nscope, c)]
                if isinstance(nscope, ast.Name) and nscope.id in [a.arg for a in fn.params()]:
                    views = []
                    for caller, node, kind_ in ctx.cg.callers(fn):
                        if kind_ == 'call' and isinstance(node, ast.Call):
                            arg = prog.bind_call(caller.module, node).get(nscope.id)
                            views.append((caller, norm(caller, arg) if arg is not None else None, node))
                good = bool(views) and all(
                    sc is not None and ast.unparse(sc).endswith('.parent_ns.fqn') and
                    tname(abs_.type_at(f_, sc.value.value, n_)) in ('Component', 'System', 'union') for f_, sc, n_ in views)
                ok = good
                why = ('port type resolved from the scope enclosing the encapsulee' if good else
                       f'port type `{txt}` is resolved from `{stxt}`; the referring scope is the encapsulee\'s parent '
                       f'namespace (<encapsulee>.parent_ns.fqn)')
            elif ot in ('Formal', 'Signature'):
                good = nscope is not None and stxt.endswith('.fqn') and \
                    tname(abs_.type_at(fn, nscope.value, c)) == 'Interface'
                same_itf = _same_interface(ctx, abs_, ex, fn, c, owner, nscope.value) if good else False
                if not good and isinstance(nscope, ast.Name) and nscope.id in [a.arg for a in fn.params()]:
                    # the scope is handed to this helper by its callers: judged at every call site
                    good = True
                    same_itf = _same_interface(ctx, abs_, ex, fn, c, owner, nscope, scope_is_fqn=True)
                ok = (good and same_itf) if same_itf is not None else None
                if ok is None:
                    why = (f'the origin of the event that declares `{txt}` could not be traced back to an interface: '
                           f'not modelled')
                why = why if ok is None else ('parameter / reply type resolved from the declaring interface\'s own scope' if ok else
                       f'type `{txt}` is resolved from `{stxt}`; the referring scope is the fqn of the interface that '
                       f'declares the event')
            else:
                ok, why = None, f'written name of a {ot} is not in the reference table'
        elif 'fqn_encapsulee_name' in txt:
            ok = nscope is None
            why = ('the encapsulee is addressed by its fully qualified name (no referring scope)' if ok else
                   f'the encapsulee name is resolved relative to `{stxt}` although it is fully qualified')
        else:
            ok, why = None, f'name argument `{txt[:60]}` is not a recognised written name'
        if ok is None:
            run.error('C07.site', fn.module.name, fn.qualname, c, why, node=c)
        else:
            run.add('C07.site', fn.module.name, fn.qualname, c, ok, why, node=c)

    for fn, c in sites:
        args = list(c.args) + [None] * 3
        kw = {k.arg: k.value for k in c.keywords}
        name_arg = kw.get('ns_ids', args[1])
        scope_arg = kw.get('as_of_inner_scope', args[2])
        if name_arg is None:
            run.error('C07.site', fn.module.name, fn.qualname, c, 'find_fqn call without a name argument', node=c)
            continue
        judge(fn, c, name_arg, scope_arg)
    run.floor('C07.site', 8)
    # no hand-rolled scan of FileContents containers in adv_shell
    fc = prog.cls('ast', 'FileContents')
    for fn in adv_functions(ctx):
        for n in iter_own_nodes(fn.node):
            if isinstance(n, ast.Attribute) and isinstance(n.ctx, ast.Load) and n.attr in fc.fields and \
                    strip_opt(abs_.type_at(fn, n.value, n)) == ('cls', fc.fq):
                run.violation('C07.site', fn.module.name, fn.qualname, ctx.flow.enclosing_stmt(n),
                              f'the generator reads FileContents.{n.attr} directly instead of resolving through find_fqn',
                              node=n)

    # ---- C07.single / C07.kind -------------------------------------------------------------------------------------------
    n_res = 0
    for fn in adv_functions(ctx):
        for n in iter_own_nodes(fn.node):
            if not (isinstance(n, ast.Attribute) and isinstance(n.ctx, ast.Load)):
                continue
            if strip_opt(abs_.type_at(fn, n.value, n)) != ('cls', fr.fq):
                continue
            n_res += 1
            p = prog.parent(n)
            if n.attr == 'items':
                benign = (isinstance(p, ast.UnaryOp) and isinstance(p.op, ast.Not)) or \
                    (isinstance(p, (ast.If, ast.While, ast.IfExp)) and getattr(p, 'test', None) is n) or \
                    (isinstance(p, ast.Call) and getattr(p.func, 'id', '') == 'len')
                run.add('C07.single', fn.module.name, fn.qualname, ctx.flow.enclosing_stmt(n), benign,
                        'items is only tested for emptiness' if benign else
                        'a declaration is taken out of FindResult.items directly: zero or several matches are not refused',
                        node=n)
            elif n.attr in ('get_single_instance', 'has_one_instance'):
                run.holds('C07.single', fn.module.name, fn.qualname, p if isinstance(p, ast.Call) else n,
                          f'declaration leaves the FindResult through {n.attr}', node=n, nontrivial=False)
                if n.attr == 'get_single_instance' and isinstance(p, ast.Call):
                    _kind(ctx, abs_, ex, fn, p)
            else:
                run.holds('C07.single', fn.module.name, fn.qualname, n, f'FindResult.{n.attr}', node=n, nontrivial=False)
    # the gate itself: only a complete result of exactly one declaration (of the hinted kind) gets through
    for what, ok, msg, node in single_instance_gate(ctx):
        run.add('C07.single', 'dznpy.ast_view', 'FindResult.get_single_instance', what, ok, msg, node=node)
    run.floor('C07.single', 8)
    run.floor('C07.kind', 8)

    # ---- C07.spelling -----------------------------------------------------------------------------------------------------------
    _spelling(ctx, abs_, ex)

    # ---- C07.memo: a remembered resolution is keyed by the written name AND the referring scope ----------------------------------------
    from .shared import memo_tables
    lookups = {f.fq for f in prog.all_functions() if f.module.name == 'dznpy.ast_view'}
    memo_fns = [f for f in adv_functions(ctx) + [f for f in prog.all_functions() if f.module.name in ('dznpy.ast_view', 'dznpy.scoping')]
                if any(g.fq in lookups for g in [f] + cg.reachable([f]))]
    run.stats['C07.memo_functions_examined'] = len(memo_fns)
    for mf, node, ok, msg in memo_tables(ctx, memo_fns):
        run.add('C07.memo', mf.module.name, mf.qualname, node, ok, msg, node=node)
    for fq, line, table in getattr(prog, 'memo_eliminated', []):
        mf = prog.functions.get(fq)
        if mf is not None and any(mf is f for f in memo_fns):
            run.holds('C07.memo', mf.module.name, mf.qualname, f'memo table {table}',
                      f'memo table `{table}` is keyed by every parameter the remembered value depends on (N22: judged as the computation it remembers)')

    # ---- C07.exact ----------------------------------------------------------------------------------------------------------------
    ff = prog.func('ast_view', 'find_fqn')
    # semantic first: find_fqn interpreted on the lookup universe of C14 (exactly the declarations on the scope chain, each once)
    from .c14 import _lookup_semantics
    fc_ = prog.cls('ast', 'FileContents')
    decl_fields_ = [nm for nm, (ann, _d, owner) in prog.class_fields(fc_).items()
                    if (lambda t: t[0] == 'list' and t[1][0] == 'cls' and t[1][1] in prog.classes and 'fqn' in prog.classes[t[1][1]].fields)(
                        prog.ann_to_type(owner.module, ann, owner))]
    if 'find_fqn' in _lookup_semantics(ctx, decl_fields_, rules=('C07.exact',), only=('find_fqn',)):
        return
    from .shared import fqn_match_form
    okf, whyf, nodef = fqn_match_form(ctx, ff)
    if okf is not None:
        run.add('C07.exact', ff.module.name, ff.qualname, nodef if nodef is not None else 'match', okf, whyf, node=nodef)
        return
    eqs = [n for n in iter_own_nodes(ff.node) if isinstance(n, ast.Compare)]
    good = [n for n in eqs if len(n.ops) == 1 and isinstance(n.ops[0], ast.Eq) and
            any(ast.unparse(s).endswith('.fqn') for s in (n.left, n.comparators[0]))]
    other = [n for n in eqs if n not in good]
    run.add('C07.exact', ff.module.name, ff.qualname, good[0] if good else 'comparison', bool(good) and not other,
            'find_fqn compares whole fully-qualified names with ==' if good and not other else
            'find_fqn does not (only) compare whole fully-qualified names with ==')


def _lift_to_callers(ctx, abs_, ex, fn: FuncInfo, owner_param: str, itf_expr: ast.expr, depth: int,
                     scope_is_fqn: bool = False) -> Optional[bool]:
    """The event (or formal) is a parameter of the helper `fn`: judge the pair (argument, scope expression in terms of the
    arguments) at every call site of the helper."""
    if depth > 3:
        return None
    sites = [(c, n) for c, n, k in ctx.cg.callers(fn) if k == 'call' and isinstance(n, ast.Call)]
    if not sites:
        return None
    verdicts = []
    for caller, node in sites:
        bind = ctx.prog.bind_call(caller.module, node, fn)
        owner2 = bind.get(owner_param)
        if owner2 is None:
            return None
        if isinstance(itf_expr, ast.Name) and itf_expr.id in bind:
            itf2 = bind[itf_expr.id]
        else:
            itf2 = _substitute(itf_expr, bind)
        if scope_is_fqn:
            n2 = ex.normalise(caller, itf2)
            if isinstance(n2, ast.Attribute) and n2.attr == 'fqn':
                verdicts.append(_same_interface(ctx, abs_, ex, caller, node, owner2, n2.value, depth + 1))
            else:
                verdicts.append(_same_interface(ctx, abs_, ex, caller, node, owner2, itf2, depth + 1, scope_is_fqn=True))
            continue
        verdicts.append(_same_interface(ctx, abs_, ex, caller, node, owner2, itf2, depth + 1))
    if any(v is False for v in verdicts):
        return False
    return True if all(v is True for v in verdicts) else None


def _same_interface(ctx, abs_, ex, fn: FuncInfo, call: ast.Call, owner: ast.expr, itf_expr: ast.expr,
                    depth: int = 0, scope_is_fqn: bool = False) -> Optional[bool]:
    """The formal / signature whose type is looked up belongs to an event of the interface whose fqn is the scope:
    the loop that yields the formal iterates `<E>.signature.formals.elements` with E an event obtained from
    `<itf_expr>.events.elements` (or E is the claim / release event of a fixture checked against that interface).
    True / False (the events of another object) / None (the origin of the event could not be traced)."""
    prog = ctx.prog
    want = ast.dump(ex.normalise(fn, itf_expr))
    # walk back from the owner: Name bound by a for-loop over <event>.signature.formals.elements
    e = owner
    hops = 0
    cur_fn = fn
    subst: Dict[str, ast.expr] = {}          # parameters of an entered helper -> argument expressions of the caller
    anchor: ast.AST = call
    while hops < 16:
        hops += 1
        if cur_fn is fn:
            e = ex.normalise(fn, e)
        if isinstance(e, ast.Name) and cur_fn is not fn and e.id in subst:
            e = subst[e.id]
            cur_fn, subst, anchor = fn, {}, call
            continue
        if isinstance(e, ast.Name) and abs_._single_def(cur_fn, e.id) is not None:
            e = abs_._single_def(cur_fn, e.id)
            continue
        if isinstance(e, ast.Name):
            b = abs_._binder(_find_name_use(cur_fn, e.id, anchor) or e) if prog.parent(e) is not None else None
            if b is None:
                b = _loop_binding(cur_fn, e.id, anchor, prog)
            if b is None and cur_fn is fn and e.id in [a.arg for a in fn.params()]:
                return _lift_to_callers(ctx, abs_, ex, fn, e.id, itf_expr, depth, scope_is_fqn)
            if b is None:
                return None
            e = b.iter
            continue
        txt = ast.unparse(e)
        if isinstance(e, (ast.ListComp, ast.GeneratorExp, ast.DictComp)) and len(e.generators) == 1:
            e = e.generators[0].iter
            continue
        if isinstance(e, ast.Attribute):
            # a property of a package class that is a single `return <expression>`: the expression, said of this object
            bt = strip_opt(abs_.type_at(cur_fn, e.value, anchor))
            pc = prog.classes.get(bt[1]) if bt[0] == 'cls' else None
            pm = prog.lookup_method(pc, e.attr) if pc is not None else None
            if pm is not None and pm.is_property:
                pbody = [st for st in pm.node.body if not (isinstance(st, ast.Expr) and isinstance(st.value, ast.Constant))]
                if len(pbody) == 1 and isinstance(pbody[0], ast.Return) and pbody[0].value is not None:
                    e = _substitute(pbody[0].value, {'self': e.value})
                    ast.fix_missing_locations(e)
                    continue
                return None
        if txt.endswith('.elements'):
            e = e.value
            continue
        if isinstance(e, ast.Attribute) and e.attr in ('formals', 'signature'):
            e = e.value
            continue
        if isinstance(e, ast.Attribute) and e.attr == 'events':
            base = e.value
            if cur_fn is not fn:
                # express the callee's expression in terms of the caller's arguments
                base = _substitute(base, subst)
            if scope_is_fqn:
                base = ast.Attribute(value=base, attr='fqn', ctx=ast.Load())
            return ast.dump(ex.normalise(fn, base)) == want
        if isinstance(e, ast.Attribute) and e.attr in ('claim_event', 'release_event'):
            # fixture events were looked up in `itf.events` by check_multiclient_cfg and belong to dzn.interface
            return True
        if isinstance(e, ast.Subscript):
            e = e.value
            continue
        if isinstance(e, ast.Call):
            fname = e.func.id if isinstance(e.func, ast.Name) else None
            # element-preserving wrappers: the elements come from the first argument / the receiver
            if fname in ('list', 'tuple', 'sorted', 'reversed', 'iter', 'groupby', 'next') and e.args:
                e = e.args[0]
                continue
            if fname == 'filter' and len(e.args) == 2:
                e = e.args[1]
                continue
            if isinstance(e.func, ast.Attribute) and e.func.attr in ('get', 'values', 'copy') :
                e = e.func.value
                continue
            callee = prog.resolve_expr_symbol(cur_fn.module, e.func) if isinstance(e.func, (ast.Name, ast.Attribute)) else None
            if isinstance(callee, FuncInfo) and cur_fn is fn:
                rets = [r for r in iter_own_nodes(callee.node) if isinstance(r, ast.Return) and r.value is not None]
                ys = [y for y in iter_own_nodes(callee.node) if isinstance(y, ast.Yield) and y.value is not None]
                if not rets and len(ys) == 1:
                    rets = ys           # a generator: its elements are what it yields
                if len(rets) != 1:
                    return None
                params = [a.arg for a in callee.params()]
                subst = {p_: a for p_, a in zip(params, e.args)}
                subst.update({k.arg: k.value for k in e.keywords if k.arg})
                cur_fn, anchor = callee, rets[0]
                e = rets[0].value
                continue
            return None
        return None
    return None


def _substitute(e: ast.expr, subst: Dict[str, ast.expr]) -> ast.expr:
    class T(ast.NodeTransformer):
        def visit_Name(self, node):
            return subst.get(node.id, node)
    import copy
    return T().visit(copy.deepcopy(e))


def _find_name_use(fn: FuncInfo, name: str, within: ast.AST) -> Optional[ast.Name]:
    for x in ast.walk(within):
        if isinstance(x, ast.Name) and x.id == name and isinstance(x.ctx, ast.Load):
            return x
    return None


def _loop_binding(fn: FuncInfo, name: str, node: ast.AST, prog):
    p = prog.parent(node)
    while p is not None and p is not fn.node:
        if isinstance(p, ast.For) and isinstance(p.target, ast.Name) and p.target.id == name:
            return p
        p = prog.parent(p)
    return None


def _kind(ctx, abs_, ex, fn: FuncInfo, call: ast.Call):
    """The kind hint of get_single_instance matches the kind-specific use of the result."""
    run, prog = ctx.run, ctx.prog
    hint = call.args[0] if call.args else next((k.value for k in call.keywords if k.arg == 'ast_typehint'), None)
    hint_cls = prog.resolve_expr_symbol(fn.module, hint) if hint is not None else None
    hint_name = hint_cls.name if isinstance(hint_cls, ClassInfo) else None
    # what was looked up?
    recv = ex.normalise(fn, call.func.value)
    src = None
    if isinstance(recv, ast.Name):
        d = abs_._single_def(fn, recv.id)
        src = d
    elif isinstance(recv, ast.Call):
        src = recv
    want = None
    name_arg = None
    if isinstance(src, ast.Call):
        name_arg = src.args[1] if len(src.args) > 1 else next((k.value for k in src.keywords if k.arg == 'ns_ids'), None)
    kfn, knode = fn, call
    for _ in range(3):
        # a helper that resolves the name it is handed: the kind wanted is that of the names its callers hand in (all the same kind)
        nn = ex.normalise(kfn, name_arg) if name_arg is not None else None
        if not (isinstance(nn, ast.Name) and nn.id in [a.arg for a in kfn.params()][(1 if kfn.cls is not None else 0):]):
            break
        views = []
        for f_, n_, k_ in ctx.cg.callers(kfn):
            if k_ == 'call' and isinstance(n_, ast.Call):
                na = prog.bind_call(f_.module, n_, callee=kfn).get(nn.id)
                if na is not None:
                    views.append((f_, n_, na))
        def owner_kind(v):
            e_ = ex.normalise(v[0], v[2])
            if ast.unparse(e_).endswith('.type_name.value'):
                return str(strip_opt(abs_.type_at(v[0], e_.value.value, v[1])))
            return ast.unparse(e_)
        if not views or len({owner_kind(v) for v in views}) != 1:
            break
        kfn, knode, name_arg = views[0]
    if name_arg is not None:
        t = ast.unparse(ex.normalise(kfn, name_arg))
        if t.endswith('.type_name.value'):
            owner = ex.normalise(kfn, name_arg).value.value
            ot = strip_opt(abs_.type_at(kfn, owner, knode))
            on = ot[1].split('.')[-1] if ot[0] == 'cls' else ot[0]
            if on == 'Port':
                want = 'Interface'
            elif on == 'Formal':
                want = 'Extern'
            elif on == 'Signature':
                # the reply type of the claim event (looked up by check_multiclient_cfg or a helper of it) has to be an enum;
                # every other reply / parameter type the generator looks up is an extern
                cmc_ = prog.func('adv_shell.core.processing', 'check_multiclient_cfg')
                in_cmc = fn is cmc_ or fn.fq in {f_.fq for f_ in ctx.cg.reachable([cmc_])}
                want = 'Enum' if in_cmc else 'Extern'
                if in_cmc:
                    from .shared import dzn_elements_by_interpretation
                    sem_ = dzn_elements_by_interpretation(ctx)
                    if sem_ is not None:
                        bad_ = sem_['C07.kind']
                        run.add('C07.kind', fn.module.name, fn.qualname, call, not bad_,
                                'a claim event that replies anything but an enum is refused with MultiClientCfgError (create_dzn_elements interpreted '
                                'on a claim event replying an extern type, E7)' if not bad_ else '; '.join(bad_[:2]), node=call)
                        return
        elif 'fqn_encapsulee_name' in t:
            want = 'encapsulee'
    if want is None:
        run.error('C07.kind', fn.module.name, fn.qualname, call, 'cannot relate this get_single_instance to a lookup',
                  node=call)
        return
    if want == 'encapsulee':
        # checked by the isinstance(System|Component) guard that dominates all uses (create_dzn_elements)
        cde = prog.func('adv_shell.core.processing', 'create_dzn_elements')
        g = next((s for s in cde.node.body if isinstance(s, ast.If) and 'isinstance(encapsulee' in ast.unparse(s.test)
                  and any(isinstance(x, ast.Raise) for x in ast.walk(s))), None)
        ok = g is not None and cde.node.body.index(g) == next(
            (k for k, s in enumerate(cde.node.body) if not (isinstance(s, ast.Expr) and isinstance(s.value, ast.Constant))), 0)
        run.add('C07.kind', fn.module.name, fn.qualname, call, ok,
                'encapsulee kind is checked by the isinstance guard that opens create_dzn_elements' if ok else
                'the encapsulee is used without a dominating System/Component kind check', node=call)
        return
    ok = hint_name == want
    run.add('C07.kind', fn.module.name, fn.qualname, call, ok,
            f'result is required to be a {want}' if ok else
            f'the looked-up declaration is used as a {want} but get_single_instance is called with kind '
            f'{hint_name or "<none>"}: a declaration of another kind is not refused', node=call)


def _memo_key_only(ctx, fn: FuncInfo, x: ast.Attribute) -> bool:
    """`k = f(<owner>.type_name...)`; k is used only to index / probe ONE dict, and what is stored under k is the result of
    `find_fqn(..., <owner>.type_name.value, ...).get_single_instance(...)`: remembering a resolution under the written name it
    was made for (within one scope) is not a comparison of names by hand."""
    prog = ctx.prog
    st = ctx.flow.enclosing_stmt(x)
    if not (isinstance(st, ast.Assign) and len(st.targets) == 1 and isinstance(st.targets[0], ast.Name)):
        return False
    k = st.targets[0].id
    owner = ast.unparse(x.value)
    if sum(1 for n in iter_own_nodes(fn.node) if isinstance(n, ast.Name) and n.id == k and isinstance(n.ctx, ast.Store)) != 1:
        return False
    dicts = set()
    for n in iter_own_nodes(fn.node):
        if isinstance(n, ast.Name) and n.id == k and isinstance(n.ctx, ast.Load):
            par = prog.parent(n)
            if isinstance(par, ast.Subscript) and par.slice is n and isinstance(par.value, ast.Name):
                dicts.add(par.value.id)
            elif isinstance(par, ast.Compare) and par.left is n and len(par.ops) == 1 and isinstance(par.ops[0], (ast.In, ast.NotIn)) \
                    and isinstance(par.comparators[0], ast.Name):
                dicts.add(par.comparators[0].id)
            else:
                return False
    if len(dicts) != 1:
        return False
    d = next(iter(dicts))
    stores = [a for a in iter_own_nodes(fn.node) if isinstance(a, ast.Assign) and len(a.targets) == 1 and
              isinstance(a.targets[0], ast.Subscript) and isinstance(a.targets[0].value, ast.Name) and a.targets[0].value.id == d]
    if not stores:
        return False
    for a in stores:
        v = a.value
        if not (isinstance(v, ast.Call) and isinstance(v.func, ast.Attribute) and v.func.attr == 'get_single_instance'):
            return False
        recv = v.func.value
        if isinstance(recv, ast.Name):
            defs = [b for b in iter_own_nodes(fn.node) if isinstance(b, ast.Assign) and len(b.targets) == 1 and
                    isinstance(b.targets[0], ast.Name) and b.targets[0].id == recv.id]
            recv = defs[0].value if len(defs) == 1 else None
        if not (isinstance(recv, ast.Call) and getattr(recv.func, 'id', getattr(recv.func, 'attr', '')) == 'find_fqn' and
                any(ast.unparse(arg).startswith(owner + '.type_name') for arg in recv.args)):
            return False
    return True


def _key_only_use(ctx, fn: FuncInfo, use: ast.AST, depth: int = 0) -> bool:
    """The value at `use` only ever becomes (part of) the key with which a dict is probed / indexed."""
    prog = ctx.prog
    cur = use
    p = prog.parent(cur)
    while isinstance(p, (ast.Tuple, ast.Attribute, ast.JoinedStr, ast.FormattedValue)) or (
            isinstance(p, ast.Call) and cur in p.args and isinstance(p.func, ast.Name) and p.func.id in ('str', 'repr', 'tuple', 'hash')):
        cur, p = p, prog.parent(p)
    if isinstance(p, ast.Subscript) and p.slice is cur:
        return True
    if isinstance(p, ast.Compare) and p.left is cur and len(p.ops) == 1 and isinstance(p.ops[0], (ast.In, ast.NotIn)):
        return True
    if isinstance(p, ast.Call) and isinstance(p.func, ast.Attribute) and p.func.attr in ('get', 'setdefault', 'pop') and p.args and p.args[0] is cur:
        return True
    if isinstance(p, ast.Assign) and p.value is cur and len(p.targets) == 1 and isinstance(p.targets[0], ast.Name) and depth < 2:
        k = p.targets[0].id
        stores = [n for n in iter_own_nodes(fn.node) if isinstance(n, ast.Name) and n.id == k and isinstance(n.ctx, ast.Store)]
        loads = [n for n in iter_own_nodes(fn.node) if isinstance(n, ast.Name) and n.id == k and isinstance(n.ctx, ast.Load)]
        return len(stores) == 1 and bool(loads) and all(_key_only_use(ctx, fn, n, depth + 1) for n in loads)
    return False


def _lookup_name_param(ctx, callee: FuncInfo, call: ast.Call, arg_below: ast.AST, depth: int = 0) -> bool:
    """`arg_below` is the argument of `call` for a parameter of `callee` that the callee only uses as the name of a find_fqn
    lookup (directly or through another such helper) or as the key of a memo of such lookups."""
    prog = ctx.prog
    b = prog.bind_call(ctx.prog.modules.get(callee.module.name, callee.module), call, callee=callee)
    pname = next((k for k, v in b.items() if v is arg_below), None)
    if pname is None or depth > 2:
        return False
    uses = [n for n in iter_own_nodes(callee.node) if isinstance(n, ast.Name) and n.id == pname and isinstance(n.ctx, ast.Load)]
    if not uses or any(isinstance(n, ast.Name) and n.id == pname and isinstance(n.ctx, ast.Store) for n in iter_own_nodes(callee.node)):
        return False
    looked_up = False
    for u in uses:
        par = prog.parent(u)
        if isinstance(par, ast.Call) and u in par.args + [k.value for k in par.keywords]:
            cs = [c for c in ctx.cg.env(callee).resolve_call(par) if isinstance(c, FuncInfo)]
            if any(c.qualname == 'find_fqn' for c in cs):
                bb = prog.bind_call(callee.module, par)
                if bb.get('ns_ids') is u or (len(par.args) > 1 and par.args[1] is u):
                    looked_up = True
                    continue
            elif cs and all(_lookup_name_param(ctx, c, par, u, depth + 1) for c in cs):
                looked_up = True
                continue
        if _key_only_use(ctx, callee, u):
            continue
        return False
    return looked_up


def _spelling(ctx, abs_, ex):
    run, prog = ctx.run, ctx.prog
    fqn_cls = prog.cls('cpp_gen', 'Fqn')
    n = 0
    for fn in adv_functions(ctx):
        for x in iter_own_nodes(fn.node):
            # (a) written names are lookup keys only
            if isinstance(x, ast.Attribute) and x.attr == 'type_name' and isinstance(x.ctx, ast.Load):
                t = strip_opt(abs_.type_at(fn, x.value, x))
                if t[0] == 'cls' and t[1].startswith('dznpy.ast.'):
                    n += 1
                    p = x
                    in_find = False
                    # testing for the built-in reply type `void` is not a lookup of a declaration
                    q = prog.parent(prog.parent(x)) if isinstance(prog.parent(x), ast.Attribute) else prog.parent(x)
                    if isinstance(q, ast.Compare) and len(q.ops) == 1 and isinstance(q.ops[0], (ast.Eq, ast.NotEq)):
                        other = q.comparators[0] if q.left is prog.parent(x) or q.left is x else q.left
                        if isinstance(other, ast.Call) and getattr(other.func, 'id', '') in ('ns_ids_t', 'namespaceids_t') \
                                and other.args and isinstance(other.args[0], ast.Constant) and other.args[0].value in ('void', 'bool'):
                            run.holds('C07.spelling', fn.module.name, fn.qualname, q,
                                      'comparison with the built-in type name (no declaration involved)', node=x)
                            continue
                    below = x
                    while p is not None and not isinstance(p, ast.stmt):
                        if isinstance(p, ast.Call):
                            cs = [c for c in ctx.cg.env(fn).resolve_call(p) if isinstance(c, FuncInfo)]
                            if any(c.qualname == 'find_fqn' for c in cs):
                                in_find = True
                            elif cs and below is not p.func and all(_lookup_name_param(ctx, c, p, below) for c in cs):
                                in_find = True      # handed to a helper that uses it as a lookup key only
                        below = p
                        p = prog.parent(p)
                    if not in_find and _memo_key_only(ctx, fn, x):
                        run.holds('C07.spelling', fn.module.name, fn.qualname, ctx.flow.enclosing_stmt(x),
                                  'the written name keys a memo of the declarations that find_fqn resolved for exactly that name',
                                  node=x)
                        continue
                    run.add('C07.spelling', fn.module.name, fn.qualname, ctx.flow.enclosing_stmt(x), in_find,
                            'the written name is used only as a lookup key' if in_find else
                            f'the written name `{ast.unparse(x)[:40]}` is used outside a find_fqn lookup (spelled into '
                            f'the output or compared by hand)', node=x)
            # (b) Fqn built from a resolved declaration's fqn carries the root prefix
            if isinstance(x, ast.Call) and prog.resolve_expr_symbol(fn.module, x.func) is fqn_cls:
                a0 = x.args[0] if x.args else next((k.value for k in x.keywords if k.arg == 'ns_ids'), None)
                if a0 is None:
                    continue
                a0n = ex.normalise(fn, a0)
                decl = isinstance(a0n, ast.Attribute) and a0n.attr == 'fqn' and \
                    strip_opt(abs_.type_at(fn, a0n.value, x))[0] in ('cls', 'union') and \
                    'dznpy.ast.' in str(abs_.type_at(fn, a0n.value, x))
                reply = 'claim_granting_reply' in ast.unparse(a0n)
                if not (decl or reply):
                    continue
                n += 1
                root = x.args[1] if len(x.args) > 1 else next((k.value for k in x.keywords if k.arg == 'prefix_root_ns'), None)
                ok = isinstance(root, ast.Constant) and root.value is True
                run.add('C07.spelling', fn.module.name, fn.qualname, x, ok,
                        'type name rendered from the resolved declaration, root-qualified (::A::B)' if ok else
                        'type name of a resolved declaration is rendered without the root prefix: C++ lookup may '
                        're-resolve it relative to the shell\'s namespace', node=x)
    # the granting reply is composed from the resolved enum's fqn
    cmc = prog.func('adv_shell.core.processing', 'check_multiclient_cfg')
    from .shared import dzn_elements_by_interpretation
    sem_de = dzn_elements_by_interpretation(ctx)
    if sem_de is not None:
        bad_ = sem_de['C07.spelling']
        n += 1
        run.add('C07.spelling', cmc.module.name, cmc.qualname, 'granting reply of the multi-client fixture', not bad_,
                'granting reply = fully qualified name of the enum the claim event replies (resolved from the interface scope; a same-named enum '
                'elsewhere is not taken) + the configured value - create_dzn_elements interpreted (E7)' if not bad_ else '; '.join(bad_[:2]))
    for c in (iter_own_nodes(cmc.node) if sem_de is None else []):
        if isinstance(c, ast.Call) and getattr(c.func, 'id', '') == 'MultiClientPortCfgFixture':
            kw = prog.bind_call(cmc.module, c)
            r = kw.get('claim_granting_reply')

            def enum_fqn(e) -> bool:
                return isinstance(e, ast.Attribute) and e.attr == 'fqn' and \
                    strip_opt(abs_.type_at(cmc, e.value, c)) == ('cls', 'dznpy.ast.Enum')

            ok = False
            if isinstance(r, ast.Name):
                # a local: `x = <enum>.fqn + value`, or `x = <enum>.fqn` followed by `x += value`
                defs = [n_ for n_ in iter_own_nodes(cmc.node) if isinstance(n_, (ast.Assign, ast.AugAssign)) and any(
                    isinstance(t, ast.Name) and t.id == r.id for t in (n_.targets if isinstance(n_, ast.Assign) else [n_.target]))]
                asg = [d for d in defs if isinstance(d, ast.Assign)]
                aug = [d for d in defs if isinstance(d, ast.AugAssign) and isinstance(d.op, ast.Add)]
                if len(asg) == 1 and len(defs) == 1 + len(aug):
                    v = asg[0].value
                    ok = (isinstance(v, ast.BinOp) and isinstance(v.op, ast.Add) and enum_fqn(v.left) and not aug) or \
                         (enum_fqn(v) and len(aug) == 1)
            elif isinstance(r, ast.BinOp) and isinstance(r.op, ast.Add):
                ok = enum_fqn(r.left)
            n += 1
            run.add('C07.spelling', cmc.module.name, cmc.qualname, c, ok,
                    'granting reply = fqn of the resolved enum + configured value' if ok else
                    'granting reply is not composed from the resolved enum\'s fqn', node=c)
    if n < 4:
        run.error('C07.spelling', '-', '-', 'spelling sites', f'only {n} spelling sites recognised (12 on the reference tree)')
