"""Shared extraction of the shell's wiring from the generator templates (used by C01, C02, C04, C09, C10)."""
from __future__ import annotations

import ast
from dataclasses import dataclass, field
from typing import Any, Dict, List, Optional, Tuple

from ..model import FuncInfo, ClassInfo, iter_own_nodes
from ..report import AnalysisError
from ..template import Evaluator, TStr, TObj, TAlt, TList, TBlock, RepL, AltL, Src, Sym, Cond, TNone, TRaise
from ..links import (Scenario, PORT_KINDS, EventLoop, Frame, Link, walk, statements_of, parse_link, is_event_src,
                     is_port_src, find_member_calls, toks_text, tok_text, collect_loops)

PROC = 'adv_shell.core.processing'


def port_sides(ctx, callee_name: str) -> Dict[str, str]:
    """{parameter of `callee_name`: 'provides'|'requires'} from the call(s) of it on the way from Builder.build: the argument
    is a CppPorts built from DznElements.provides_ports / requires_ports - in place, through a local, or by a helper function
    that is handed one of the two lists (that create_dzn_elements fills those two lists by port direction is verified by the
    C13 justification / C03.sides)."""
    prog = ctx.prog
    callee = prog.func(PROC, callee_name)

    def side_of(fn, e, depth=0):
        if depth > 4 or e is None:
            return None
        if isinstance(e, ast.Attribute) and e.attr in ('provides_ports', 'requires_ports'):
            return e.attr.split('_')[0]
        if isinstance(e, ast.Name):
            d = ctx.cg.env(fn).single_def(e.id)
            return side_of(fn, d, depth + 1) if d is not None else None
        if isinstance(e, ast.Call):
            if getattr(e.func, 'id', getattr(e.func, 'attr', '')) == 'CppPorts' and e.args:
                lc = e.args[0]
                if isinstance(lc, ast.ListComp) and len(lc.generators) == 1:
                    return side_of(fn, lc.generators[0].iter, depth + 1)
                return None
            gs = [g for g in ctx.cg.env(fn).resolve_call(e) if hasattr(g, 'node')]
            if len(gs) == 1:
                g = gs[0]
                rets = [r.value for r in iter_own_nodes(g.node) if isinstance(r, ast.Return) and r.value is not None]
                if len(rets) == 1:
                    r = rets[0]
                    if isinstance(r, ast.Name):
                        r = ctx.cg.env(g).single_def(r.id) or r
                    if isinstance(r, ast.Call) and getattr(r.func, 'id', getattr(r.func, 'attr', '')) == 'CppPorts' and r.args and \
                            isinstance(r.args[0], ast.ListComp) and len(r.args[0].generators) == 1:
                        it = r.args[0].generators[0].iter
                        if isinstance(it, ast.Name) and it.id in [a.arg for a in g.params()]:
                            bound = prog.bind_call(fn.module, e, g)
                            return side_of(fn, bound.get(it.id), depth + 1)
                        return side_of(g, it, depth + 1)
        return None
    out: Dict[str, str] = {}
    for caller, c, _k in ctx.cg.callers(callee):
        if not isinstance(c, ast.Call):
            continue
        bound = prog.bind_call(caller.module, c, callee)
        for pname, arg in bound.items():
            sd = side_of(caller, arg)
            if sd is not None:
                if out.get(pname, sd) != sd:
                    return {}
                out[pname] = sd
    return out


@dataclass
class Wiring:
    ev: Evaluator
    values: Dict[str, Any] = field(default_factory=dict)          # entry name -> abstract value
    sides: Dict[str, Dict[str, str]] = field(default_factory=dict)  # entry name -> {param: side}
    loops: Dict[str, List[EventLoop]] = field(default_factory=dict)
    texts: Dict[str, list] = field(default_factory=dict)

    def scenario(self, entry: str, **kw) -> Scenario:
        return Scenario(port_roots=dict(self.sides.get(entry, {})), **kw)

    def links(self, entry: str, kind: str, direction: str, role: str = 'other', origin: Optional[str] = None,
              reply_void: Optional[bool] = None) -> Tuple[List[Link], List[str]]:
        """Link statements the generator emits for one event of the given direction / role on a port of `kind`.
        Returns (links, problems)."""
        scen = self.scenario(entry, kind=kind, direction=direction, role=role, origin=origin,
                             has_multiclient=(kind == 'P-MTS-multiclient'), reply_void=reply_void)
        out: List[Link] = []
        problems: List[str] = []
        for lp in self.loops.get(entry, []):
            ok = True
            for fr in lp.frames:
                if fr.kind == 'rep' and is_port_src(fr.src):
                    r = scen.accepts_port(fr.src)
                    if r is False:
                        ok = False
                        break
                    if r is None:
                        problems.append(f'port loop `{fr.src!r}` cannot be evaluated for kind {kind}')
                        ok = False
                        break
                elif fr.kind == 'cond':
                    r = scen.decide(fr.cond)
                    if r is False:
                        ok = False
                        break
            if not ok:
                continue
            if any(scen.decide(f) is False for f in lp.src.filters):
                continue
            body = scen.simplify(lp.body)
            # a link text that differs between events with and without parameters (beyond the optional parameter
            # list) is judged once for each of the two cases
            bodies = [body]
            if _has_formals_alt(body):
                bodies = [_resolve_formals_alt(body, True), _resolve_formals_alt(body, False)]
            for bi, bd in enumerate(bodies):
                for st in statements_of(bd):
                    ln = parse_link(st, lp.where)
                    if ln is not None:
                        if len(bodies) == 2:
                            ln.variant = 'events with parameters' if bi == 0 else 'events without parameters'
                        out.append(ln)
                    elif any(t[0] == 'id' and t[1] in ('in', 'out') for t in st) and any(t == ('p', '=') for t in st):
                        problems.append(f'statement not recognised as a link: {toks_text(st)[:120]}')
        return out, problems

    def port_statements(self, entry: str, kind: str, val: Any = None, **scen_kw) -> Tuple[List[Tuple[List[tuple], Sym]], List[str]]:
        """Statements emitted once per port of `kind` by loops over ports (not over events): [(tokens, port var)]."""
        scen = self.scenario(entry, kind=kind, has_multiclient=(kind == 'P-MTS-multiclient'), **scen_kw)
        val = self.values[entry] if val is None else val
        val = scen.select(val)
        out, problems = [], []
        for lp in collect_loops(self.ev, val, is_port_src):
            ok = True
            for fr in lp.frames:
                if fr.kind == 'cond' and scen.decide(fr.cond) is False:
                    ok = False
                if fr.kind == 'rep' and is_port_src(fr.src) and scen.accepts_port(fr.src) is False:
                    ok = False
            if not ok:
                continue
            r = scen.accepts_port(lp.src)
            if r is False:
                continue
            if r is None:
                problems.append(f'port loop `{lp.src!r}` cannot be evaluated for kind {kind}')
                continue
            # conditions on the loop variable inside the body are decided by the kind as well
            body = scen.simplify(lp.body)
            for st in statements_of(body):
                # skip nested per-event repetitions (handled by links())
                if any(t[0] == 'rep' and is_event_src(t[1].src) for t in st):
                    continue
                out.append((st, lp.src.var))
        return out, problems

    def port_var(self, lp: EventLoop) -> Optional[Sym]:
        for fr in reversed(lp.frames):
            if fr.kind == 'rep' and is_port_src(fr.src):
                return fr.src.var
        return None


def _formals_cond(c: Cond) -> Optional[bool]:
    """polarity when c is (the negation of) `the event has formals`, else None."""
    if c.op == 'not':
        r = _formals_cond(c.args[0])
        return None if r is None else not r
    if c.op == 'nonempty' and isinstance(c.args[0], Src) and isinstance(c.args[0].base, Sym) and \
            c.args[0].base.path[-3:] == ('signature', 'formals', 'elements') and not c.args[0].filters:
        return True
    if c.op == 'truthy' and isinstance(c.args[0], Sym) and c.args[0].path[-3:] == ('signature', 'formals', 'elements'):
        return True
    return None


def _is_formals_alt(p) -> bool:
    from ..template import AltS
    return isinstance(p, AltS) and _formals_cond(p.cond) is not None and bool(p.a.parts) and bool(p.b.parts)


def _has_formals_alt(s: TStr) -> bool:
    from ..template import AltS, RepS
    for p in s.parts:
        if _is_formals_alt(p):
            return True
        if isinstance(p, AltS) and (_has_formals_alt(p.a) or _has_formals_alt(p.b)):
            return True
        if isinstance(p, RepS) and _has_formals_alt(p.elem):
            return True
    return False


def _resolve_formals_alt(s: TStr, has_formals: bool) -> TStr:
    from ..template import AltS, RepS
    out = TStr()
    for p in s.parts:
        if _is_formals_alt(p):
            take_a = _formals_cond(p.cond) == has_formals
            out = out + _resolve_formals_alt(p.a if take_a else p.b, has_formals)
        elif isinstance(p, AltS):
            out = out + TStr([AltS(p.cond, _resolve_formals_alt(p.a, has_formals), _resolve_formals_alt(p.b, has_formals))])
        elif isinstance(p, RepS):
            out = out + TStr([RepS(p.sep, _resolve_formals_alt(p.elem, has_formals), p.src)])
        else:
            out = out + TStr([p])
    return out


def build_wiring(ctx, entries=('create_constructor', 'create_cpp_port_helpers')) -> Wiring:
    prog = ctx.prog
    ev = Evaluator(prog, ctx.cg)
    w = Wiring(ev)
    for name in entries:
        fn = prog.func(PROC, name)
        val = ev.eval_entry(fn)
        w.values[name] = val
        w.sides[name] = port_sides(ctx, name)
        loops: List[EventLoop] = []
        texts: list = []
        walk(ev, val, [], name, loops, texts)
        w.loops[name] = loops
        w.texts[name] = texts
    if ev.opaque_log:
        # fail closed: a construct the template evaluator does not model makes every verdict on the wiring an artefact
        raise AnalysisError('the port wiring generators contain constructs the template evaluator does not model: '
                            + '; '.join(sorted(set(ev.opaque_log))[:4]))
    return w
