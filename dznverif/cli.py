"""Command line: python -m dznverif check <Cxx> [--tier quick|thorough] [--replay path]"""
from __future__ import annotations

import argparse
import importlib
import json
import os
import sys
import traceback

from .model import Program, CallGraph
from .flow import Flow
from .report import Run, AnalysisError, digest_files

ALL = [f'C{n:02d}' for n in range(1, 21)]


class Ctx:
    def __init__(self, prop: str, tier: str, seed: int, repo: str):
        self.prop = prop
        self.tier = tier
        self.seed = seed
        self.repo = repo
        self.repo_src = os.path.join(repo, 'src')
        self.run = Run(prop, tier, seed, self.repo_src)
        self.prog = Program(self.repo_src)
        self.flow = Flow(self.prog)
        self._cg = None

    @property
    def cg(self) -> CallGraph:
        if self._cg is None:
            self._cg = CallGraph(self.prog)
        return self._cg

    @property
    def thorough(self) -> bool:
        return self.tier == 'thorough'


def run_check(prop: str, tier: str, seed: int, repo: str, replay: str = None) -> int:
    try:
        ctx = Ctx(prop, tier, seed, repo)
    except AnalysisError as exc:
        print(f'ANALYSIS-ERROR property={prop} program model: {exc}')
        return 2
    run = ctx.run
    try:
        mod = importlib.import_module(f'.rules.{prop.lower()}', __package__)
        mod.check(ctx)
        if ctx.thorough and hasattr(mod, 'check_thorough'):
            mod.check_thorough(ctx)
    except AnalysisError as exc:
        run.error('engine', '-', '-', str(exc), f'analysis could not be completed: {exc}')
    except Exception as exc:  # a crash of the checker is never a violation
        traceback.print_exc()
        run.error('engine', '-', '-', repr(exc), f'checker crashed: {exc!r}')
    if ctx.thorough and not os.environ.get('DZNVERIF_NO_SELFVALIDATION') and not run.has_new_violation() \
            and not run.has_error():
        # checker self-validation: replay the seeded-fault catalogue of this property against the current tree
        try:
            from .selftest import validate_for
            res = validate_for(prop, repo, int(os.environ.get('DZNVERIF_JOBS', '16')))
            bad = res.pop('misbehaved')
            run.stats['checker_self_validation'] = res
            for b in bad:
                run.error('self-validation', '-', '-', b, 'a catalogue entry that applies to this tree is not judged as recorded: '
                          'the checker lost a rule (seeded fault not reported) or raises a false alarm (behaviour-preserving '
                          'variant reported)')
        except Exception as exc:
            traceback.print_exc()
            run.error('self-validation', '-', '-', repr(exc), f'self-validation crashed: {exc!r}')
    run.stats.setdefault('modules_parsed', len(ctx.prog.modules))
    run.stats.setdefault('functions_in_model', len(ctx.prog.functions))
    run.stats.setdefault('classes_in_model', len(ctx.prog.classes))
    run.stats.setdefault('source_digest', digest_files([m.path for m in ctx.prog.modules.values()]))
    if ctx._cg is not None:
        run.stats.setdefault('call_edges', ctx.cg.n_edges())
        run.stats.setdefault('attr_calls_resolved_by_type', f'{ctx.cg.n_attr_by_type}/{ctx.cg.n_attr_calls}')
    if len(ctx.prog.modules) < 22:
        run.error('engine', '-', '-', 'module floor 22', f'only {len(ctx.prog.modules)} modules parsed')
    flt = None
    if replay:
        with open(replay) as fh:
            flt = json.load(fh)['key']
    return run.finish(flt)


def main(argv=None) -> int:
    ap = argparse.ArgumentParser(prog='dznverif')
    sub = ap.add_subparsers(dest='cmd', required=True)
    pc = sub.add_parser('check')
    pc.add_argument('prop')
    pc.add_argument('--tier', default=os.environ.get('VERIF_TIER', 'quick'), choices=['quick', 'thorough'])
    pc.add_argument('--replay', default=None)
    pc.add_argument('--repo', default=os.environ.get('DZNVERIF_REPO', '/repo'))
    ps = sub.add_parser('selftest')
    ps.add_argument('props', nargs='*')
    ps.add_argument('--repo', default=os.environ.get('DZNVERIF_REPO', '/repo'))
    ps.add_argument('--jobs', type=int, default=16)
    pa = sub.add_parser('all')
    pa.add_argument('--tier', default='quick')
    pa.add_argument('--repo', default=os.environ.get('DZNVERIF_REPO', '/repo'))
    args = ap.parse_args(argv)
    seed = int(os.environ.get('VERIF_SEED', '0') or 0)

    if args.cmd == 'check':
        if args.prop not in ALL:
            print(f'unknown property {args.prop}')
            return 2
        return run_check(args.prop, args.tier, seed, args.repo, args.replay)
    if args.cmd == 'all':
        worst = 0
        for p in ALL:
            try:
                importlib.import_module(f'.rules.{p.lower()}', __package__)
            except ModuleNotFoundError:
                continue
            worst = max(worst, run_check(p, args.tier, seed, args.repo))
        return worst
    if args.cmd == 'selftest':
        from .selftest import run_selftest
        return run_selftest(args.props or ALL, args.repo, args.jobs, seed)
    return 2


if __name__ == '__main__':
    sys.exit(main())
