"""E7 - finite-scenario interpretation of package code.

Some properties quantify over configuration values the code touches only through a handful of observations: a port name
is compared, hashed, tested for membership and quoted in messages - never taken apart; a selection is a set of names or one
of three wildcards.  For such code the behaviour on ALL inputs is determined by its behaviour on a small universe of
representatives (three names - a probed one, another expected one, one that is not expected - and every selection over
them).  This module evaluates the (normalised) syntax trees of the package on those representatives:

  * values are ordinary small Python values, except names (`Atom`: equality, hashing, `isinstance(x, str)`, truthiness and
    formatting only - any other operation on an atom makes the scenario UNDECIDED, which is how the "touched only through
    comparisons" premise is checked on every run), enum members (`EnumV`), and instances of package classes (`Obj`);
  * every construct the evaluator does not model raises `Undecided` - never a verdict;
  * nothing of /repo is imported or executed: the evaluator walks the trees of the program model (E1), so what it judges
    is the source as it stands, normal forms applied.

It is an abstract interpreter over a finite domain, not a test: the rule that uses it states the small-universe argument
and enumerates the whole quotient (see rules/c03.py).
"""
from __future__ import annotations

import ast
from typing import Any, Dict, List, Optional, Tuple

from .model import Program, FuncInfo, ClassInfo, Module


class Undecided(Exception):
    pass


class Raised(Exception):
    """The interpreted code raised an exception of class `name` (fq for package classes, bare name for builtins)."""

    def __init__(self, name: str, where: str = ''):
        super().__init__(name)
        self.name = name
        self.where = where


class _Return(Exception):
    def __init__(self, value):
        self.value = value


class _Break(Exception):
    pass


class _Continue(Exception):
    pass


class Atom:
    """An opaque name: equal only to itself."""
    __slots__ = ('name',)

    def __init__(self, name: str):
        self.name = name

    def __eq__(self, other):
        return isinstance(other, Atom) and other.name == self.name

    def __hash__(self):
        return hash(('atom', self.name))

    def __repr__(self):
        return f'<{self.name}>'


class EnumV:
    __slots__ = ('cls', 'member')

    def __init__(self, cls: ClassInfo, member: str):
        self.cls, self.member = cls, member

    def __eq__(self, other):
        return isinstance(other, EnumV) and other.cls is self.cls and other.member == self.member

    def __hash__(self):
        return hash(('enum', self.cls.fq, self.member))

    def __repr__(self):
        return f'{self.cls.name}.{self.member}'


class Obj:
    def __init__(self, cls: ClassInfo, fields: Optional[Dict[str, Any]] = None):
        self.cls = cls
        self.fields: Dict[str, Any] = fields if fields is not None else {}

    def __repr__(self):
        return f'{self.cls.name}({", ".join(f"{k}={v!r}" for k, v in self.fields.items())})'


class KeysView(list):
    """dict.keys() / dict.items(): an ordered view that also supports the set operators."""


class GenList(list):
    """What a generator function produced, computed eagerly: the yielded values in order; `pending` is the exception the
    body raised after them (the consumer meets it only when it asks for one more value than there are)."""
    pending: Optional['Raised'] = None


def _consuming(it: 'GenList'):
    """Take the values of an iterator one by one: what a loop leaves behind (break) stays in it."""
    while it:
        yield it.pop(0)


def _lazy(items) -> 'GenList':
    g = GenList(items)
    return g


class _Yield(Exception):
    pass


class Marker(tuple):
    """Marker(('builtin', name)) / ('method', receiver, name) / ('lambda', node, env) / ('ext', name) / ('module', m) / Marker(('excobj', name))"""


class ClassRef:
    def __init__(self, cls: ClassInfo):
        self.cls = cls


class FuncRef:
    def __init__(self, fn: FuncInfo, self_val: Any = None, closure: Optional[Dict[str, Any]] = None):
        self.fn, self.self_val, self.closure = fn, self_val, closure


BUILTIN_NAMES = {'id', 'float', 'complex', 'bytes', 'callable', 'getattr', 'hasattr', 'abs', 'set', 'dict', 'list', 'tuple', 'frozenset', 'sorted', 'len', 'isinstance', 'any', 'all', 'bool', 'str', 'int',
                 'enumerate', 'zip', 'range', 'print', 'repr', 'min', 'max', 'sum', 'type', 'reversed', 'iter', 'next', 'map',
                 'filter', 'object', 'TypeError', 'ValueError', 'KeyError', 'IndexError', 'NotImplementedError', 'Exception',
                 'AttributeError', 'RuntimeError', 'AssertionError', 'StopIteration'}
EXC_BUILTINS = {'TypeError', 'ValueError', 'KeyError', 'IndexError', 'NotImplementedError', 'Exception', 'AttributeError',
                'RuntimeError', 'AssertionError', 'StopIteration'}


class Interp:
    MAX_STEPS = 200000
    MAX_DEPTH = 40

    def __init__(self, prog: Program):
        self.prog = prog
        self.steps = 0
        self._const_cache: Dict[Tuple[str, str], Any] = {}

    # -- helpers -------------------------------------------------------------------------------------------------------
    def _tick(self):
        self.steps += 1
        if self.steps > self.MAX_STEPS:
            raise Undecided('step budget exhausted')

    def is_subclass(self, c: ClassInfo, of: ClassInfo) -> bool:
        return c is of or self.prog.is_subclass(c.fq, of.fq)

    def is_record(self, c: ClassInfo) -> bool:
        return c.is_dataclass or any(str(b).split('.')[-1] == 'NamedTuple' for b in c.bases)

    def _is_namedtuple(self, c: ClassInfo) -> bool:
        return any(str(b).split('.')[-1] == 'NamedTuple' for a in [c] + [x for x in self.prog.ancestors(c) if isinstance(x, ClassInfo)]
                   for b in a.bases)

    def exc_name(self, v: Any) -> str:
        if isinstance(v, Obj):
            return v.cls.fq
        if isinstance(v, ClassRef):
            return v.cls.fq
        if isinstance(v, tuple) and v and v[0] == 'builtin':
            return v[1]
        if isinstance(v, tuple) and v and v[0] == 'excobj':
            return v[1]
        raise Undecided('raise of something that is not an exception class / instance')

    # -- calling -----------------------------------------------------------------------------------------------------------
    def call_function(self, fn: FuncInfo, args: List[Any], kwargs: Dict[str, Any], self_val: Any = None,
                      closure: Optional[Dict[str, Any]] = None, depth: int = 0) -> Any:
        # the number of interpreted calls that are live (whatever `depth` the caller passed on): interpreted code that recurses without
        # end - the rule's scenario made it so, or the code under analysis does - is undecided, never a crash of the checker
        live = getattr(self, '_live_calls', 0)
        if live > 120:
            raise Undecided('interpreted call nesting beyond 120 (unbounded recursion of the interpreted code?)')
        self._live_calls = live + 1
        try:
            return self._call_function(fn, args, kwargs, self_val, closure, depth)
        except RecursionError:
            raise Undecided('recursion limit of the checker\'s own interpreter')
        finally:
            self._live_calls = live

    def _call_function(self, fn: FuncInfo, args: List[Any], kwargs: Dict[str, Any], self_val: Any = None,
                       closure: Optional[Dict[str, Any]] = None, depth: int = 0) -> Any:
        if depth > self.MAX_DEPTH:
            raise Undecided('call depth')
        if any(isinstance(x, ast.Await) for x in ast.walk(fn.node)):
            raise Undecided(f'coroutine {fn.qualname}')
        from .model import iter_own_nodes
        is_gen = any(isinstance(x, (ast.Yield, ast.YieldFrom)) for x in iter_own_nodes(fn.node))
        env: Dict[str, Any] = dict(closure or {})
        a = fn.node.args
        pos = list(a.posonlyargs) + list(a.args)
        names = [p.arg for p in pos]
        vals = list(args)
        if self_val is not None and names and not fn.is_static:
            env[names[0]] = self_val
            names = names[1:]
        all_pos = [p.arg for p in pos]
        defaults = dict(zip(all_pos[len(all_pos) - len(a.defaults):], a.defaults))
        if len(vals) > len(names) and a.vararg is None:
            raise Raised('TypeError', f'too many arguments for {fn.qualname}')
        for i, nm in enumerate(names):
            if i < len(vals):
                env[nm] = vals[i]
            elif nm in kwargs:
                env[nm] = kwargs.pop(nm)
            elif nm in defaults:
                env[nm] = self.eval(defaults[nm], {}, fn, depth + 1)
            else:
                raise Raised('TypeError', f'missing argument {nm} of {fn.qualname}')
        if a.vararg is not None:
            env[a.vararg.arg] = tuple(vals[len(names):])
        for p, d in zip(a.kwonlyargs, a.kw_defaults):
            if p.arg in kwargs:
                env[p.arg] = kwargs.pop(p.arg)
            elif d is not None:
                env[p.arg] = self.eval(d, {}, fn, depth + 1)
            else:
                raise Raised('TypeError', f'missing keyword argument {p.arg}')
        if a.kwarg is not None:
            env[a.kwarg.arg] = dict(kwargs)
        elif kwargs:
            raise Raised('TypeError', f'unexpected keyword argument(s) {sorted(kwargs)} for {fn.qualname}')
        if is_gen:
            # a generator without side effects on anything but its own locals: its values, eagerly (see GenList)
            out = GenList()
            env['__yielded__'] = out
            try:
                self.exec_block(fn.node.body, env, fn, depth)
            except _Return:
                pass
            except Raised as exc:
                out.pending = exc
            return out
        try:
            self.exec_block(fn.node.body, env, fn, depth)
        except _Return as r:
            return r.value
        return None

    def construct(self, cls: ClassInfo, args: List[Any], kwargs: Dict[str, Any], depth: int = 0) -> Any:
        prog = self.prog
        if cls.is_exception or any(str(b).split('.')[-1] in EXC_BUILTINS for b in cls.bases):
            return Obj(cls, {'args': tuple(args)})
        if cls.is_enum:
            raise Undecided(f'enum lookup by value {cls.name}(...)')
        init = prog.lookup_method(cls, '__init__')
        obj = Obj(cls, {})
        if init is not None:
            self.call_function(init, args, dict(kwargs), self_val=obj, depth=depth + 1)
            return obj
        if not self.is_record(cls):
            if args or kwargs:
                raise Undecided(f'construction of {cls.name} with arguments but no __init__')
            return obj
        fields = prog.class_fields(cls)
        names = list(fields)
        if len(args) > len(names):
            raise Raised('TypeError', f'too many arguments for {cls.name}')
        kw = dict(kwargs)
        for i, nm in enumerate(names):
            ann, dflt, owner = fields[nm]
            if i < len(args):
                obj.fields[nm] = args[i]
            elif nm in kw:
                obj.fields[nm] = kw.pop(nm)
            elif dflt is not None:
                obj.fields[nm] = self._field_default(dflt, owner, depth)
            else:
                raise Raised('TypeError', f'missing argument {nm} of {cls.name}')
        if kw:
            raise Raised('TypeError', f'unexpected keyword argument(s) {sorted(kw)} for {cls.name}')
        post = prog.lookup_method(cls, '__post_init__')
        if post is not None:
            self.call_function(post, [], {}, self_val=obj, depth=depth + 1)
        return obj

    def _field_default(self, dflt: ast.expr, owner: ClassInfo, depth: int) -> Any:
        ctxfn = next(iter(owner.methods.values()), None) or next(iter(owner.module.functions.values()), None)
        if ctxfn is None:
            raise Undecided('no context to evaluate a field default')
        if isinstance(dflt, ast.Call) and getattr(dflt.func, 'id', getattr(dflt.func, 'attr', '')) == 'field':
            for k in dflt.keywords:
                if k.arg == 'default':
                    return self.eval(k.value, {}, ctxfn, depth + 1)
                if k.arg == 'default_factory':
                    return self.apply(self.eval(k.value, {}, ctxfn, depth + 1), [], {}, k.value, ctxfn, depth + 1)
            raise Undecided('field() without default')
        return self.eval(dflt, {}, ctxfn, depth + 1)

    # -- statements --------------------------------------------------------------------------------------------------------
    def exec_block(self, stmts: List[ast.stmt], env: Dict[str, Any], fn: FuncInfo, depth: int):
        for s in stmts:
            self.exec_stmt(s, env, fn, depth)

    def exec_stmt(self, s: ast.stmt, env: Dict[str, Any], fn: FuncInfo, depth: int):
        self._tick()
        if isinstance(s, ast.Expr):
            if isinstance(s.value, ast.Constant):
                return
            self.eval(s.value, env, fn, depth)
        elif isinstance(s, ast.Assign):
            v = self.eval(s.value, env, fn, depth)
            for t in s.targets:
                self.assign(t, v, env, fn, depth)
        elif isinstance(s, ast.AnnAssign):
            if s.value is not None:
                self.assign(s.target, self.eval(s.value, env, fn, depth), env, fn, depth)
        elif isinstance(s, ast.AugAssign):
            cur = self.eval(s.target, env, fn, depth)
            rhs = self.eval(s.value, env, fn, depth)
            if isinstance(cur, list) and isinstance(s.op, ast.Add):
                cur.extend(self.iterate(rhs))
                return
            if isinstance(cur, set) and isinstance(s.op, ast.BitOr):
                cur |= set(self.iterate(rhs))
                return
            if isinstance(cur, Obj) and isinstance(s.op, ast.Add):
                m = self.prog.lookup_method(cur.cls, '__iadd__')
                if m is not None:
                    self.assign(s.target, self.call_function(m, [rhs], {}, self_val=cur, depth=depth + 1), env, fn, depth)
                    return
            self.assign(s.target, self.binop(s.op, cur, rhs), env, fn, depth)
        elif isinstance(s, ast.If):
            self.exec_block(s.body if self.truth(self.eval(s.test, env, fn, depth)) else s.orelse, env, fn, depth)
        elif isinstance(s, ast.For):
            broke = False
            src_ = self.eval(s.iter, env, fn, depth)
            pending_ = src_.pending if isinstance(src_, GenList) else None
            for item in (_consuming(src_) if isinstance(src_, GenList) else self.iterate(src_)):
                self.assign(s.target, item, env, fn, depth)
                try:
                    self.exec_block(s.body, env, fn, depth)
                except _Break:
                    broke = True
                    break
                except _Continue:
                    continue
            if not broke and pending_ is not None:
                raise pending_
            if not broke:
                self.exec_block(s.orelse, env, fn, depth)
        elif isinstance(s, ast.While):
            n = 0
            broke = False
            while self.truth(self.eval(s.test, env, fn, depth)):
                n += 1
                if n > 2000:
                    raise Undecided('loop bound')
                try:
                    self.exec_block(s.body, env, fn, depth)
                except _Break:
                    broke = True
                    break
                except _Continue:
                    continue
            if not broke:
                self.exec_block(s.orelse, env, fn, depth)
        elif isinstance(s, ast.Return):
            raise _Return(self.eval(s.value, env, fn, depth) if s.value is not None else None)
        elif isinstance(s, ast.Raise):
            if s.exc is None:
                raise Undecided('bare raise')
            raise Raised(self.exc_name(self.eval(s.exc, env, fn, depth)), f'{fn.qualname}:{s.lineno}')
        elif isinstance(s, ast.Pass):
            return
        elif isinstance(s, ast.Break):
            raise _Break()
        elif isinstance(s, ast.Continue):
            raise _Continue()
        elif isinstance(s, ast.Assert):
            if not self.truth(self.eval(s.test, env, fn, depth)):
                raise Raised('AssertionError', f'{fn.qualname}:{s.lineno}')
        elif isinstance(s, ast.Try):
            if s.finalbody:
                raise Undecided('try/finally')
            try:
                self.exec_block(s.body, env, fn, depth)
            except Raised as exc:
                for h in s.handlers:
                    if h.type is None or self._handler_matches(h.type, exc.name, env, fn, depth):
                        if h.name:
                            env[h.name] = Marker(('excobj', exc.name))
                        self.exec_block(h.body, env, fn, depth)
                        return
                raise
            else:
                self.exec_block(s.orelse, env, fn, depth)
        elif isinstance(s, ast.With):
            # context managers that are objects of package classes: __enter__ on the way in, __exit__ on every way out (normal
            # end, return / break / continue, an exception - which goes on unless __exit__ answers with a true value)
            entered = []
            try:
                for item in s.items:
                    cm = self.eval(item.context_expr, env, fn, depth)
                    if not isinstance(cm, Obj):
                        raise Undecided('context manager that is no object of a package class')
                    m_in, m_out = self.prog.lookup_method(cm.cls, '__enter__'), self.prog.lookup_method(cm.cls, '__exit__')
                    if m_in is None or m_out is None:
                        raise Undecided('context manager without __enter__ / __exit__')
                    val = self.call_function(m_in, [], {}, self_val=cm, depth=depth + 1)
                    entered.append((cm, m_out))
                    if item.optional_vars is not None:
                        self.assign(item.optional_vars, val, env, fn, depth)
                self.exec_block(s.body, env, fn, depth)
            except Raised as exc:
                swallowed = False
                while entered:
                    cm, m_out = entered.pop()
                    r_ = self.call_function(m_out, [Marker(('exctype', exc.name)), Marker(('excobj', exc.name)), Marker(('traceback',))], {},
                                            self_val=cm, depth=depth + 1)
                    if r_ is not None and self.truth(r_):
                        swallowed = True
                        break
                if not swallowed:
                    raise
                while entered:
                    cm, m_out = entered.pop()
                    self.call_function(m_out, [None, None, None], {}, self_val=cm, depth=depth + 1)
            except (_Return, _Break, _Continue):
                while entered:
                    cm, m_out = entered.pop()
                    self.call_function(m_out, [None, None, None], {}, self_val=cm, depth=depth + 1)
                raise
            else:
                while entered:
                    cm, m_out = entered.pop()
                    self.call_function(m_out, [None, None, None], {}, self_val=cm, depth=depth + 1)
        elif isinstance(s, (ast.FunctionDef,)):
            nf = fn.nested.get(s.name)
            if nf is None:
                raise Undecided(f'nested function {s.name} not in the model')
            env[s.name] = FuncRef(nf, None, env)
        elif isinstance(s, ast.Delete):
            for t in s.targets:
                if isinstance(t, ast.Subscript):
                    c = self.eval(t.value, env, fn, depth)
                    if isinstance(t.slice, ast.Slice):
                        parts_ = [self.eval(x_, env, fn, depth) if x_ is not None else None for x_ in (t.slice.lower, t.slice.upper, t.slice.step)]
                        if not isinstance(c, list) or not all(x_ is None or (isinstance(x_, int) and not isinstance(x_, bool)) for x_ in parts_):
                            raise Undecided('delete of a slice')
                        del c[slice(*parts_)]
                        continue
                    k = self.eval(t.slice, env, fn, depth)
                    try:
                        del c[k]
                    except (KeyError, IndexError) as e_:
                        raise Raised(type(e_).__name__)
                    except TypeError:
                        raise Undecided('delete')
                elif isinstance(t, ast.Name):
                    env.pop(t.id, None)         # `del x`: the name is unbound from here on
                elif isinstance(t, (ast.Tuple, ast.List)) and all(isinstance(x_, ast.Name) for x_ in t.elts):
                    for x_ in t.elts:
                        env.pop(x_.id, None)
                else:
                    raise Undecided('delete of an attribute')
        elif isinstance(s, (ast.Import, ast.ImportFrom, ast.Global, ast.Nonlocal)):
            raise Undecided(type(s).__name__)
        else:
            raise Undecided(f'statement {type(s).__name__}')

    def _handler_matches(self, t: ast.expr, name: str, env, fn, depth) -> bool:
        ts = t.elts if isinstance(t, ast.Tuple) else [t]
        for x in ts:
            v = self.eval(x, env, fn, depth)
            if isinstance(v, ClassRef):
                c = self.prog.classes.get(name)
                if c is not None and self.is_subclass(c, v.cls):
                    return True
            elif isinstance(v, tuple) and v and v[0] == 'builtin':
                if v[1] in ('Exception', name):
                    return True
                c = self.prog.classes.get(name)
                if c is not None and v[1] == 'Exception':
                    return True
        return False

    def assign(self, t: ast.AST, v: Any, env: Dict[str, Any], fn: FuncInfo, depth: int):
        if isinstance(t, ast.Name):
            env[t.id] = v
        elif isinstance(t, (ast.Tuple, ast.List)):
            items = list(self.iterate(v))
            stars = [i for i, x in enumerate(t.elts) if isinstance(x, ast.Starred)]
            if len(stars) == 1:
                k = stars[0]
                after = len(t.elts) - k - 1
                if len(items) < len(t.elts) - 1:
                    raise Raised('ValueError', 'not enough values to unpack')
                for x, it in zip(t.elts[:k], items[:k]):
                    self.assign(x, it, env, fn, depth)
                self.assign(t.elts[k].value, list(items[k:len(items) - after]), env, fn, depth)
                for x, it in zip(t.elts[k + 1:], items[len(items) - after:] if after else []):
                    self.assign(x, it, env, fn, depth)
                return
            if stars:
                raise Undecided('starred unpacking')
            if len(items) != len(t.elts):
                raise Raised('ValueError', 'unpacking')
            for x, it in zip(t.elts, items):
                self.assign(x, it, env, fn, depth)
        elif isinstance(t, ast.Subscript):
            c = self.eval(t.value, env, fn, depth)
            k = self.eval(t.slice, env, fn, depth)
            if isinstance(c, dict):
                self._hashable(k)
                c[k] = v
            elif isinstance(c, list) and isinstance(k, int) and not isinstance(k, bool):
                try:
                    c[k] = v
                except IndexError:
                    raise Raised('IndexError')
            else:
                raise Undecided('subscript store')
        elif isinstance(t, ast.Attribute):
            o = self.eval(t.value, env, fn, depth)
            if isinstance(o, Obj):
                if o.cls.frozen and fn.name not in ('__init__', '__post_init__'):
                    raise Raised('dataclasses.FrozenInstanceError')
                setter = self.prog.lookup_setter(o.cls, t.attr)          # (inherited setters included)
                if setter is not None:
                    self.call_function(setter, [v], {}, self_val=o, depth=depth + 1)
                else:
                    o.fields[t.attr] = v
            else:
                raise Undecided('attribute store')
        else:
            raise Undecided(f'assignment target {type(t).__name__}')

    # -- values --------------------------------------------------------------------------------------------------------------
    def truth(self, v: Any) -> bool:
        if isinstance(v, GenList):
            return True             # an iterator object, whatever is left in it
        if v is None or isinstance(v, (bool, int, float, str, bytes, list, tuple, set, frozenset, dict)):
            return bool(v)
        if isinstance(v, (Atom, EnumV, ClassRef, FuncRef)):
            return True
        if isinstance(v, Obj):
            for nm in ('__bool__', '__len__'):
                m = self.prog.lookup_method(v.cls, nm)
                if m is not None:
                    return self.truth(self.call_function(m, [], {}, self_val=v))
            return True
        if isinstance(v, tuple):
            return True
        import re as _re
        if isinstance(v, (_re.Match, _re.Pattern)):
            return True
        raise Undecided('truth value')

    def iterate(self, v: Any) -> List[Any]:
        if isinstance(v, GenList):
            out_ = list(v)
            del v[:]                     # an iterator is consumed by whoever drains it
            if v.pending is not None:
                raise v.pending          # the consumer drains the generator: it reaches the failing step
            return out_
        if isinstance(v, Marker):
            raise Undecided('iteration over a function / module value')
        if isinstance(v, (list, tuple, set, frozenset)):
            return list(v)
        if isinstance(v, dict):
            return list(v.keys())
        if isinstance(v, str):
            return list(v)
        if isinstance(v, range):
            return list(v)
        if v is None or isinstance(v, (int, bool, Atom, EnumV, Obj)):
            raise Raised('TypeError', 'not iterable')
        raise Undecided('iteration')

    def _hashable(self, k: Any):
        if isinstance(k, (list, dict, set)):
            raise Raised('TypeError', 'unhashable')
        if isinstance(k, Obj):
            if not k.cls.frozen:
                raise Undecided('hash of a mutable object')

    def equal(self, a: Any, b: Any) -> bool:
        if isinstance(a, Obj) and isinstance(b, Obj):
            eqm = self.prog.lookup_method(a.cls, '__eq__')
            if eqm is not None:
                return self.truth(self.call_function(eqm, [b], {}, self_val=a))
            if self.is_record(a.cls):
                return a.cls is b.cls and set(a.fields) == set(b.fields) and all(self.equal(a.fields[k], b.fields[k]) for k in a.fields)
            return a is b
        if isinstance(a, Obj) or isinstance(b, Obj):
            return False
        if isinstance(a, (set, frozenset)) and isinstance(b, (set, frozenset)):
            return set(a) == set(b)
        if type(a) in (list, tuple) and type(a) is type(b):
            return len(a) == len(b) and all(self.equal(x, y) for x, y in zip(a, b))
        if isinstance(a, dict) and isinstance(b, dict):
            return set(a) == set(b) and all(self.equal(a[k], b[k]) for k in a)
        if isinstance(a, (Atom, EnumV)) or isinstance(b, (Atom, EnumV)):
            return a == b
        if isinstance(a, ClassRef) and isinstance(b, ClassRef):
            return a.cls is b.cls
        try:
            return bool(a == b)
        except Exception:       # pylint: disable=broad-except
            raise Undecided('comparison')

    def identical(self, a: Any, b: Any) -> bool:
        if a is None or b is None or isinstance(a, bool) or isinstance(b, bool):
            return a is b
        if isinstance(a, EnumV) or isinstance(b, EnumV):
            return a == b
        if isinstance(a, ClassRef) and isinstance(b, ClassRef):
            return a.cls is b.cls
        if isinstance(a, (Obj, list, dict, set)) or isinstance(b, (Obj, list, dict, set)):
            return a is b
        raise Undecided('identity of immutable values')

    def contains(self, c: Any, x: Any) -> bool:
        if isinstance(c, Obj):
            m = self.prog.lookup_method(c.cls, '__contains__')
            if m is not None:
                return self.truth(self.call_function(m, [x], {}, self_val=c))
            m = self.prog.lookup_method(c.cls, '__iter__')
            if m is not None:
                return any(self.equal(x, y) for y in self.iterate(self.call_function(m, [], {}, self_val=c)))
            raise Raised('TypeError', f'argument of type {c.cls.name} is not iterable')
        if isinstance(c, (set, frozenset, dict)):
            self._hashable(x)
            return any(self.equal(x, y) for y in c)
        if isinstance(c, (list, tuple)):
            return any(self.equal(x, y) for y in c)
        if isinstance(c, str):
            if isinstance(x, str):
                return x in c
            if isinstance(x, Atom):
                raise Undecided('a name searched inside a string')
            raise Raised('TypeError')
        if c is None or isinstance(c, (int, bool, Atom, EnumV)):
            raise Raised('TypeError', 'argument is not a container')
        raise Undecided('membership')

    DUNDER = {ast.Add: '__add__', ast.Sub: '__sub__', ast.Mult: '__mul__', ast.BitOr: '__or__', ast.BitAnd: '__and__'}

    def binop(self, op: ast.operator, a: Any, b: Any) -> Any:
        if isinstance(a, Obj) and type(op) in self.DUNDER:
            m = self.prog.lookup_method(a.cls, self.DUNDER[type(op)])
            if m is not None:
                return self.call_function(m, [b], {}, self_val=a)
            raise Raised('TypeError', f'unsupported operand for {a.cls.name}')
        sets = (set, frozenset)
        if (isinstance(a, KeysView) and isinstance(b, sets + (KeysView,))) or (isinstance(b, KeysView) and isinstance(a, sets)):
            a, b = set(a), set(b)
        if isinstance(a, sets) and isinstance(b, sets):
            if isinstance(op, ast.BitOr):
                return set(a) | set(b)
            if isinstance(op, ast.BitAnd):
                return {x for x in a if self.contains(b, x)}
            if isinstance(op, ast.Sub):
                return {x for x in a if not self.contains(b, x)}
            if isinstance(op, ast.BitXor):
                return {x for x in a if not self.contains(b, x)} | {x for x in b if not self.contains(a, x)}
        if isinstance(a, dict) and isinstance(b, dict) and isinstance(op, ast.BitOr):
            r = dict(a)
            r.update(b)
            return r
        if isinstance(op, ast.Add):
            if isinstance(a, list) and isinstance(b, list):
                return a + b
            if isinstance(a, tuple) and isinstance(b, tuple):
                return a + b
            if isinstance(a, str) and isinstance(b, str):
                return a + b
            if isinstance(a, int) and isinstance(b, int):
                return a + b
        if isinstance(a, int) and isinstance(b, int) and not isinstance(a, bool) and not isinstance(b, bool):
            if isinstance(op, ast.Sub):
                return a - b
            if isinstance(op, ast.Mult):
                return a * b
        if isinstance(op, ast.Mult) and isinstance(a, (str, list)) and isinstance(b, int):
            return a * b
        if isinstance(op, ast.Mod) and isinstance(a, str):
            return a
        raise Undecided(f'operator {type(op).__name__} on {type(a).__name__}/{type(b).__name__}')

    def text(self, v: Any) -> str:
        if isinstance(v, Atom):
            return v.name
        if isinstance(v, Obj):
            m = self.prog.lookup_method(v.cls, '__str__')
            if m is not None:
                r = self.call_function(m, [], {}, self_val=v)
                return r if isinstance(r, str) else self.text(r)
            return repr(v)
        if isinstance(v, (list, tuple, set, frozenset)):
            return '[' + ', '.join(sorted(self.text(x) for x in v)) + ']'
        if isinstance(v, dict):
            return '{' + ', '.join(sorted(f'{self.text(k)}: {self.text(x)}' for k, x in v.items())) + '}'
        return str(v)

    # -- expressions -------------------------------------------------------------------------------------------------------
    def eval(self, e: ast.expr, env: Dict[str, Any], fn: FuncInfo, depth: int = 0) -> Any:
        self._tick()
        prog = self.prog
        if isinstance(e, ast.Constant):
            return e.value
        if isinstance(e, ast.Name):
            if e.id in env:
                return env[e.id]
            return self.global_name(fn.module, e.id, fn, depth)
        if isinstance(e, ast.Attribute):
            sym = prog.resolve_expr_symbol(fn.module, e)
            if sym is not None and not (isinstance(e.value, ast.Name) and e.value.id in env) and \
                    not (isinstance(sym, FuncInfo) and sym.cls is not None):       # a method: bound through getattr (classmethods get the class)
                v = self.from_symbol(sym, e.attr, fn, depth)
                if v is not NotImplemented:
                    return v
            return self.getattr(self.eval(e.value, env, fn, depth), e.attr, fn, depth)
        if isinstance(e, ast.Call):
            return self.call(e, env, fn, depth)
        if isinstance(e, ast.Compare):
            left = self.eval(e.left, env, fn, depth)
            for op, c in zip(e.ops, e.comparators):
                right = self.eval(c, env, fn, depth)
                if isinstance(op, ast.Eq):
                    r = self.equal(left, right)
                elif isinstance(op, ast.NotEq):
                    r = not self.equal(left, right)
                elif isinstance(op, ast.Is):
                    r = self.identical(left, right)
                elif isinstance(op, ast.IsNot):
                    r = not self.identical(left, right)
                elif isinstance(op, ast.In):
                    r = self.contains(right, left)
                elif isinstance(op, ast.NotIn):
                    r = not self.contains(right, left)
                else:
                    if isinstance(left, int) and isinstance(right, int):
                        r = {ast.Lt: left < right, ast.LtE: left <= right, ast.Gt: left > right, ast.GtE: left >= right}[type(op)]
                    elif isinstance(left, (set, frozenset)) and isinstance(right, (set, frozenset)):
                        sub = all(self.contains(right, x) for x in left)
                        sup = all(self.contains(left, x) for x in right)
                        r = {ast.Lt: sub and not sup, ast.LtE: sub, ast.Gt: sup and not sub, ast.GtE: sup}[type(op)]
                    else:
                        raise Undecided('ordering comparison')
                if not r:
                    return False
                left = right
            return True
        if isinstance(e, ast.BoolOp):
            v = None
            for x in e.values:
                v = self.eval(x, env, fn, depth)
                t = self.truth(v)
                if isinstance(e.op, ast.And) and not t:
                    return v
                if isinstance(e.op, ast.Or) and t:
                    return v
            return v
        if isinstance(e, ast.UnaryOp):
            v = self.eval(e.operand, env, fn, depth)
            if isinstance(e.op, ast.Not):
                return not self.truth(v)
            if isinstance(e.op, ast.USub) and isinstance(v, int):
                return -v
            raise Undecided('unary operator')
        if isinstance(e, ast.IfExp):
            return self.eval(e.body if self.truth(self.eval(e.test, env, fn, depth)) else e.orelse, env, fn, depth)
        if isinstance(e, ast.BinOp):
            return self.binop(e.op, self.eval(e.left, env, fn, depth), self.eval(e.right, env, fn, depth))
        if isinstance(e, (ast.List, ast.Tuple, ast.Set)):
            items = []
            for x in e.elts:
                if isinstance(x, ast.Starred):
                    items.extend(self.iterate(self.eval(x.value, env, fn, depth)))
                else:
                    items.append(self.eval(x, env, fn, depth))
            if isinstance(e, ast.List):
                return items
            if isinstance(e, ast.Tuple):
                return tuple(items)
            for x in items:
                self._hashable(x)
            return set(items)
        if isinstance(e, ast.Dict):
            d = {}
            for k, v in zip(e.keys, e.values):
                if k is None:
                    d.update(self.eval(v, env, fn, depth))
                else:
                    kk = self.eval(k, env, fn, depth)
                    self._hashable(kk)
                    d[kk] = self.eval(v, env, fn, depth)
            return d
        if isinstance(e, (ast.ListComp, ast.SetComp, ast.GeneratorExp, ast.DictComp)):
            out: List[Any] = []

            def rec(i: int, env2: Dict[str, Any]):
                if i == len(e.generators):
                    if isinstance(e, ast.DictComp):
                        out.append((self.eval(e.key, env2, fn, depth), self.eval(e.value, env2, fn, depth)))
                    else:
                        out.append(self.eval(e.elt, env2, fn, depth))
                    return
                g = e.generators[i]
                for item in self.iterate(self.eval(g.iter, env2, fn, depth)):
                    env3 = dict(env2)
                    self.assign(g.target, item, env3, fn, depth)
                    if all(self.truth(self.eval(c, env3, fn, depth)) for c in g.ifs):
                        rec(i + 1, env3)
            rec(0, dict(env))
            if isinstance(e, ast.DictComp):
                for k, _v in out:
                    self._hashable(k)
                return dict(out)
            if isinstance(e, ast.SetComp):
                for x in out:
                    self._hashable(x)
                return set(out)
            return _lazy(out) if isinstance(e, ast.GeneratorExp) else out
        if isinstance(e, ast.Subscript):
            c = self.eval(e.value, env, fn, depth)
            if isinstance(e.slice, ast.Slice):
                lo = self.eval(e.slice.lower, env, fn, depth) if e.slice.lower is not None else None
                hi = self.eval(e.slice.upper, env, fn, depth) if e.slice.upper is not None else None
                st = self.eval(e.slice.step, env, fn, depth) if e.slice.step is not None else None
                if isinstance(c, (list, tuple, str)):
                    return c[lo:hi:st]
                raise Undecided('slice')
            k = self.eval(e.slice, env, fn, depth)
            if isinstance(c, dict):
                self._hashable(k)
                for kk, vv in c.items():
                    if self.equal(kk, k):
                        return vv
                raise Raised('KeyError')
            if isinstance(c, (list, tuple)) and isinstance(k, int) and not isinstance(k, bool):
                try:
                    return c[k]
                except IndexError:
                    raise Raised('IndexError')
            if isinstance(c, (set, frozenset)) or c is None or isinstance(c, (Atom, EnumV, int)):
                raise Raised('TypeError', 'not subscriptable')
            raise Undecided('subscript')
        if isinstance(e, ast.JoinedStr):
            parts = []
            for p in e.values:
                if isinstance(p, ast.Constant):
                    parts.append(str(p.value))
                elif isinstance(p, ast.FormattedValue):
                    v_ = self.eval(p.value, env, fn, depth)
                    if p.format_spec is not None:
                        spec = self.eval(p.format_spec, env, fn, depth)
                        if isinstance(v_, Atom):
                            raise Undecided('a name is formatted with a format specification')
                        if not isinstance(v_, (str, int)) or isinstance(v_, bool) or not isinstance(spec, str):
                            raise Undecided('format specification on an unmodelled value')
                        if p.conversion in (ord('r'),):
                            v_ = repr(v_)
                        try:
                            parts.append(format(v_, spec))
                        except (ValueError, TypeError):
                            raise Raised('ValueError', 'format specification')
                    elif p.conversion == ord('r') and isinstance(v_, str):
                        parts.append(repr(v_))
                    else:
                        parts.append(self.text(v_))
            return ''.join(parts)
        if isinstance(e, ast.Lambda):
            return Marker(('lambda', e, dict(env)))
        if isinstance(e, ast.Starred):
            return self.eval(e.value, env, fn, depth)
        if isinstance(e, ast.Yield) and '__yielded__' in env:
            env['__yielded__'].append(self.eval(e.value, env, fn, depth) if e.value is not None else None)
            return None
        if isinstance(e, ast.YieldFrom) and '__yielded__' in env:
            src = self.eval(e.value, env, fn, depth)
            env['__yielded__'].extend(self.iterate(src))
            return None
        raise Undecided(f'expression {type(e).__name__}')

    def global_name(self, mod: Module, name: str, fn: FuncInfo, depth: int) -> Any:
        sym = self.prog.resolve_name(mod, name)
        if sym is None:
            if name in BUILTIN_NAMES:
                return Marker(('builtin', name))
            raise Undecided(f'name {name}')
        v = self.from_symbol(sym, name, fn, depth)
        if v is NotImplemented:
            raise Undecided(f'symbol {name}')
        return v

    def from_symbol(self, sym: Any, name: str, fn: FuncInfo, depth: int) -> Any:
        if isinstance(sym, ClassInfo):
            return ClassRef(sym)
        if isinstance(sym, FuncInfo):
            return FuncRef(sym)
        if isinstance(sym, tuple) and sym[0] == 'enum_member':
            return EnumV(sym[1], sym[2])
        if isinstance(sym, tuple) and sym[0] == 'const':
            node, mod = sym[1], sym[2]
            key = (mod.name, name)
            if key not in self._const_cache:
                ctxfn = next(iter(mod.functions.values()), None)
                if ctxfn is None:
                    for c in mod.classes.values():
                        ctxfn = next(iter(c.methods.values()), None)
                        if ctxfn is not None:
                            break
                if ctxfn is None:
                    raise Undecided('module constant without context')
                self._const_cache[key] = self.eval(node, {}, ctxfn, depth + 1)
            return self._const_cache[key]
        if isinstance(sym, tuple) and sym[0] == 'ext':
            return Marker(('ext', sym[1]))
        if isinstance(sym, Module):
            return Marker(('module', sym))
        return NotImplemented

    def getattr(self, base: Any, attr: str, fn: FuncInfo, depth: int) -> Any:
        prog = self.prog
        if isinstance(base, Obj):
            m = prog.lookup_method(base.cls, attr)
            if m is not None and m.is_property:
                return self.call_function(m, [], {}, self_val=base, depth=depth + 1)
            if attr in base.fields:
                return base.fields[attr]
            if m is not None:
                if getattr(m, 'is_classmethod', False):
                    return FuncRef(m, ClassRef(base.cls))
                return FuncRef(m, None if m.is_static else base)
            v = self._class_attr(base.cls, attr, depth)
            if v is not NotImplemented:
                return v
            if attr == '__class__':
                return ClassRef(base.cls)
            if self._is_namedtuple(base.cls) and attr in ('_replace', '_asdict'):
                return Marker(('method', base, attr))
            if self._is_namedtuple(base.cls) and attr == '_fields':
                return tuple(self.prog.class_fields(base.cls))
            if attr.startswith('__') and attr.endswith('__'):
                raise Undecided(f'special attribute {attr}')
            raise Raised('AttributeError', f'{base.cls.name}.{attr}')
        if isinstance(base, ClassRef):
            c = base.cls
            if c.is_enum and attr in c.enum_members:
                return EnumV(c, attr)
            m = prog.lookup_method(c, attr)
            if m is not None:
                if getattr(m, 'is_classmethod', False):
                    return FuncRef(m, base)
                return FuncRef(m, None)
            if attr in ('__name__', '__qualname__'):
                return c.name
            v = self._class_attr(c, attr, depth)
            if v is not NotImplemented:
                return v
            raise Raised('AttributeError', f'class {c.name}.{attr}')
        if isinstance(base, EnumV):
            if attr == 'name':
                return base.member
            if attr == 'value':
                node = base.cls.enum_members.get(base.member)
                if isinstance(node, ast.Constant):
                    return node.value
                raise Undecided('enum value')
            m = prog.lookup_method(base.cls, attr)
            if m is not None and m.is_property:
                return self.call_function(m, [], {}, self_val=base, depth=depth + 1)
            if m is not None:
                return FuncRef(m, base)
            raise Raised('AttributeError')
        if isinstance(base, tuple) and base and base[0] == 'module':
            return self.global_name(base[1], attr, fn, depth)
        if isinstance(base, tuple) and base and base[0] == 'builtin':
            return Marker(('builtin', f'{base[1]}.{attr}'))
        if isinstance(base, tuple) and base and base[0] == 'ext':
            return Marker(('ext', f'{base[1]}.{attr}'))
        if isinstance(base, (dict, list, set, frozenset, str, tuple)):
            return Marker(('method', base, attr))
        import re as _re
        if isinstance(base, _re.Pattern) and attr in ('match', 'fullmatch', 'search'):
            return Marker(('ext-bound', base, attr))
        if base is None or isinstance(base, (Atom, int, bool)):
            if isinstance(base, Atom):
                raise Undecided(f'a name is taken apart (.{attr})')
            raise Raised('AttributeError', f'{type(base).__name__}.{attr}')
        raise Undecided(f'attribute {attr}')

    def _class_attr(self, cls: ClassInfo, attr: str, depth: int) -> Any:
        chain = [cls] + [a for a in self.prog.ancestors(cls) if isinstance(a, ClassInfo) and a is not cls]
        for c in chain:
            for st in c.node.body:
                tg = st.targets[0] if isinstance(st, ast.Assign) and len(st.targets) == 1 else \
                    st.target if isinstance(st, ast.AnnAssign) and st.value is not None else None
                if isinstance(tg, ast.Name) and tg.id == attr:
                    ctxfn = next(iter(c.methods.values()), None) or next(iter(c.module.functions.values()), None)
                    if ctxfn is None:
                        raise Undecided('class attribute without context')
                    scope = {nm: FuncRef(m_) for nm, m_ in c.methods.items()}
                    return self.eval(st.value, scope, ctxfn, depth + 1)
        return NotImplemented

    # -- calls -----------------------------------------------------------------------------------------------------------------
    def call(self, e: ast.Call, env: Dict[str, Any], fn: FuncInfo, depth: int) -> Any:
        f = e.func
        if isinstance(f, ast.Attribute) and isinstance(f.value, ast.Call) and isinstance(f.value.func, ast.Name) and \
                f.value.func.id == 'super' and not f.value.args and fn.cls is not None and 'self' in env:
            args, kwargs = self._args(e, env, fn, depth)
            for anc in self.prog.ancestors(fn.cls)[1:]:
                if isinstance(anc, ClassInfo) and f.attr in anc.methods:
                    return self.call_function(anc.methods[f.attr], args, kwargs, self_val=env['self'], depth=depth + 1)
            return None
        callee = self.eval(f, env, fn, depth)
        args, kwargs = self._args(e, env, fn, depth)
        return self.apply(callee, args, kwargs, e, fn, depth)

    def _args(self, e: ast.Call, env, fn, depth) -> Tuple[List[Any], Dict[str, Any]]:
        args: List[Any] = []
        for a in e.args:
            if isinstance(a, ast.Starred):
                args.extend(self.iterate(self.eval(a.value, env, fn, depth)))
            else:
                args.append(self.eval(a, env, fn, depth))
        kwargs: Dict[str, Any] = {}
        for k in e.keywords:
            if k.arg is None:
                d = self.eval(k.value, env, fn, depth)
                if not isinstance(d, dict) or not all(isinstance(x, str) for x in d):
                    raise Undecided('**kwargs')
                kwargs.update(d)
            else:
                kwargs[k.arg] = self.eval(k.value, env, fn, depth)
        return args, kwargs

    def apply(self, callee: Any, args: List[Any], kwargs: Dict[str, Any], e: ast.AST, fn: FuncInfo, depth: int) -> Any:
        if isinstance(callee, FuncRef):
            return self.call_function(callee.fn, args, kwargs, self_val=callee.self_val, closure=callee.closure, depth=depth + 1)
        if isinstance(callee, ClassRef):
            return self.construct(callee.cls, args, kwargs, depth + 1)
        if isinstance(callee, tuple) and callee and callee[0] == 'lambda':
            lam: ast.Lambda = callee[1]
            la = lam.args
            if la.vararg or la.kwarg or la.kwonlyargs or kwargs or la.defaults:
                raise Undecided('lambda signature')
            names = [p.arg for p in list(la.posonlyargs) + list(la.args)]
            if len(names) != len(args):
                raise Raised('TypeError', 'lambda arity')
            env2 = dict(callee[2])
            env2.update(zip(names, args))
            return self.eval(lam.body, env2, fn, depth + 1)
        if isinstance(callee, tuple) and callee and callee[0] == 'builtin':
            return self.builtin(callee[1], args, kwargs, fn, depth)
        if isinstance(callee, tuple) and callee and callee[0] == 'method':
            return self.method(callee[1], callee[2], args, kwargs, fn, depth)
        if isinstance(callee, tuple) and callee and callee[0] == 'ext':
            if callee[1] in ('copy.deepcopy', 'copy.copy') and len(args) == 1:
                return self._copy(args[0], deep=callee[1].endswith('deepcopy'))
            res_ = self.library(callee[1], args, kwargs, fn, depth)
            if callee[1].startswith('itertools.') and type(res_) is list:
                res_ = _lazy(res_)       # the itertools functions hand out iterators
            return res_
        if isinstance(callee, tuple) and callee and callee[0] == 'opgetter' and len(args) == 1 and not kwargs:
            kind, spec = callee[1], callee[2]

            def one(obj, what):
                if kind == 'attrgetter':
                    if not isinstance(what, str):
                        raise Raised('TypeError', 'attribute name must be a string')
                    for part in what.split('.'):
                        obj = self.getattr(obj, part, fn, depth)
                    return obj
                if kind == 'itemgetter':
                    if isinstance(obj, dict):
                        for k_, v_ in obj.items():
                            if self.equal(k_, what):
                                return v_
                        raise Raised('KeyError')
                    if isinstance(obj, (list, tuple, str)) and isinstance(what, int):
                        try:
                            return obj[what]
                        except IndexError:
                            raise Raised('IndexError')
                    raise Undecided('itemgetter')
                raise Undecided(kind)
            if kind == 'methodcaller':
                if not isinstance(spec[0], str):
                    raise Raised('TypeError', 'method name must be a string')
                return self.apply(self.getattr(args[0], spec[0], fn, depth), list(spec[1:]), {}, e, fn, depth)
            vals = [one(args[0], w) for w in spec]
            return vals[0] if len(vals) == 1 else tuple(vals)
        if isinstance(callee, tuple) and callee and callee[0] == 'ext-bound':
            if len(args) == 1 and isinstance(args[0], str) and not kwargs:
                return getattr(callee[1], callee[2])(args[0])
            if args and isinstance(args[0], Atom):
                raise Undecided('a name is matched against a pattern')
            raise Raised('TypeError', 're: expected string')
        if callee is None:
            raise Raised('TypeError', 'None is not callable')
        raise Undecided('call of an unmodelled value')

    def library(self, name: str, args: List[Any], kwargs: Dict[str, Any], fn: FuncInfo, depth: int) -> Any:
        """Pure standard-library functions on concrete small values."""
        import re as _re
        import itertools as _it
        if name == 'types.MappingProxyType' and len(args) == 1 and isinstance(args[0], dict) and not kwargs:
            return args[0]          # a read-only view of that dict (a write through the view is not modelled: no such method is)
        if name in ('re.match', 're.fullmatch', 're.search') and len(args) == 2 and not kwargs:
            if isinstance(args[0], str) and isinstance(args[1], str):
                try:
                    return getattr(_re, name.split('.')[1])(args[0], args[1])
                except _re.error:
                    raise Undecided('invalid regular expression')
            if isinstance(args[1], Atom):
                raise Undecided('a name is matched against a pattern')
            raise Raised('TypeError', 're: expected string')
        if name == 're.compile' and len(args) == 1 and isinstance(args[0], str):
            try:
                return _re.compile(args[0])
            except _re.error:
                raise Undecided('invalid regular expression')
        if name in ('itertools.chain', 'itertools.chain.from_iterable'):
            parts = args if name == 'itertools.chain' else self.iterate(args[0]) if len(args) == 1 else None
            if parts is None:
                raise Undecided(name)
            out: List[Any] = []
            for p_ in parts:
                out.extend(self.iterate(p_))
            return out
        if name == 'itertools.product' and not kwargs:
            return [tuple(t) for t in _it.product(*[self.iterate(a) for a in args])]
        if name == 'itertools.repeat' and len(args) == 2 and isinstance(args[1], int):
            return [args[0]] * args[1]
        if name == 'itertools.islice' and len(args) in (2, 3, 4) and all(isinstance(a, int) or a is None for a in args[1:]):
            return list(_it.islice(self.iterate(args[0]), *args[1:]))
        if name == 'itertools.takewhile' and len(args) == 2:
            out = []
            for x in self.iterate(args[1]):
                if not self.truth(self.apply(args[0], [x], {}, None, fn, depth + 1)):
                    break
                out.append(x)
            return out
        if name == 'itertools.accumulate' and len(args) in (1, 2):
            items = self.iterate(args[0])
            out = []
            acc = None
            for i, x in enumerate(items):
                acc = x if i == 0 else (self.apply(args[1], [acc, x], {}, None, fn, depth + 1) if len(args) == 2 else self.binop(ast.Add(), acc, x))
                out.append(acc)
            return out
        if name == 'itertools.groupby' and len(args) in (1, 2) and set(kwargs) <= {'key'}:
            keyf = args[1] if len(args) == 2 else kwargs.get('key')
            runs: List[Any] = []
            for x in self.iterate(args[0]):
                k = x if keyf is None else self.apply(keyf, [x], {}, None, fn, depth + 1)
                if runs and self.equal(runs[-1][0], k):
                    runs[-1][1].append(x)              # consecutive elements with an equal key form one run
                else:
                    runs.append((k, GenList([x])))
            return [tuple(r) for r in runs]
        if name in ('operator.attrgetter', 'operator.itemgetter', 'operator.methodcaller') and args and not kwargs:
            return Marker(('opgetter', name.split('.')[1], tuple(args)))
        if name == 'functools.reduce' and len(args) in (2, 3):
            items = self.iterate(args[1])
            if len(args) == 3:
                acc = args[2]
            elif items:
                acc, items = items[0], items[1:]
            else:
                raise Raised('TypeError', 'reduce of empty sequence')
            for x in items:
                acc = self.apply(args[0], [acc, x], {}, None, fn, depth + 1)
            return acc
        raise Undecided(f'library call {name}')

    def _copy(self, v: Any, deep: bool) -> Any:
        if isinstance(v, list):
            return [self._copy(x, deep) if deep else x for x in v]
        if isinstance(v, set):
            return set(v)
        if isinstance(v, dict):
            return {k: (self._copy(x, deep) if deep else x) for k, x in v.items()}
        if isinstance(v, Obj):
            return Obj(v.cls, {k: (self._copy(x, deep) if deep else x) for k, x in v.fields.items()})
        return v

    def isinstance_(self, v: Any, t: Any) -> bool:
        if isinstance(t, tuple) and not isinstance(t, Marker):
            return any(self.isinstance_(v, x) for x in t)
        if isinstance(t, ClassRef):
            if isinstance(v, Obj):
                return self.is_subclass(v.cls, t.cls)
            if isinstance(v, EnumV):
                return self.is_subclass(v.cls, t.cls)
            return False
        if isinstance(t, tuple) and t[0] == 'builtin':
            n = t[1]
            table = {'str': lambda x: isinstance(x, (str, Atom)), 'set': lambda x: isinstance(x, set),
                     'frozenset': lambda x: isinstance(x, frozenset), 'dict': lambda x: isinstance(x, dict),
                     'list': lambda x: isinstance(x, list) and not isinstance(x, (GenList, KeysView)),
                     'float': lambda x: isinstance(x, float), 'complex': lambda x: isinstance(x, complex),
                     'bytes': lambda x: isinstance(x, bytes), 'tuple': lambda x: isinstance(x, tuple) and not isinstance(x, Marker),
                     'int': lambda x: isinstance(x, int), 'bool': lambda x: isinstance(x, bool), 'object': lambda x: True}
            if n in table:
                return table[n](v)
        if isinstance(t, tuple) and t[0] == 'ext' and t[1].split('.')[-1] in ('Enum',):
            return isinstance(v, EnumV)
        raise Undecided('isinstance against an unmodelled type')

    def builtin(self, name: str, args: List[Any], kwargs: Dict[str, Any], fn: FuncInfo, depth: int) -> Any:
        if name == 'isinstance' and len(args) == 2:
            return self.isinstance_(args[0], args[1])
        if name == 'len' and len(args) == 1:
            if isinstance(args[0], (list, tuple, set, frozenset, dict, str)):
                return len(args[0])
            if isinstance(args[0], Atom):
                raise Undecided('length of a name')
            raise Raised('TypeError')
        if name in ('set', 'frozenset', 'list', 'tuple') and len(args) <= 1 and not kwargs:
            items = self.iterate(args[0]) if args else []
            if name in ('set', 'frozenset'):
                for x in items:
                    self._hashable(x)
                out: Any = []
                for x in items:
                    if not any(self.equal(x, y) for y in out):
                        out.append(x)
                return set(out) if name == 'set' else frozenset(out)
            return list(items) if name == 'list' else tuple(items)
        if name == 'dict':
            d: Dict[Any, Any] = {}
            if args:
                if isinstance(args[0], dict):
                    d.update(args[0])
                else:
                    for kv in self.iterate(args[0]):
                        k, v = self.iterate(kv)
                        self._hashable(k)
                        d[k] = v
            d.update(kwargs)
            return d
        if name == 'dict.fromkeys' and 1 <= len(args) <= 2:
            d = {}
            for k in self.iterate(args[0]):
                self._hashable(k)
                d[k] = args[1] if len(args) == 2 else None
            return d
        if name == 'sorted' and len(args) == 1:
            items = self.iterate(args[0])
            key = kwargs.get('key')
            if key is not None:
                # a key function whose values are plain comparable constants (numbers, booleans, strings, tuples of those): the stable sort
                def plain(v_):
                    return isinstance(v_, (bool, int, float, str)) or (isinstance(v_, tuple) and all(plain(x_) for x_ in v_))
                keyed = []
                for x_ in items:
                    kv = self.apply(key, [x_], {}, None, fn, depth + 1)
                    if kv is None or not plain(kv):
                        raise Undecided('sorted with a key that is no plain constant')
                    keyed.append((kv, x_))
                try:
                    keyed.sort(key=lambda t_: t_[0], reverse=bool(kwargs.get('reverse', False)))
                except TypeError:
                    raise Undecided('sorted with keys of mixed types')
                return [x_ for _k, x_ in keyed]
            # the order of names is not part of the model: any fixed order stands for "sorted"
            try:
                return sorted(items, key=lambda x: (x.name if isinstance(x, Atom) else str(x)))
            except Exception:       # pylint: disable=broad-except
                raise Undecided('sorted')
        if name == 'reversed' and len(args) == 1:
            return _lazy(reversed(self.iterate(args[0])))
        if name in ('any', 'all') and len(args) == 1:
            src_ = args[0]
            for x in (_consuming(src_) if isinstance(src_, GenList) else self.iterate(src_)):
                t_ = self.truth(x)
                if name == 'any' and t_:
                    return True
                if name == 'all' and not t_:
                    return False
            if isinstance(src_, GenList) and src_.pending is not None:
                raise src_.pending
            return name == 'all'
        if name == 'bool':
            return self.truth(args[0]) if args else False
        if name in ('str', 'repr'):
            return self.text(args[0]) if args else ''
        if name == 'enumerate' and len(args) == 1:
            return _lazy((i, x) for i, x in enumerate(self.iterate(args[0])))
        if name == 'zip':
            return _lazy(tuple(t) for t in zip(*[self.iterate(a) for a in args]))
        if name == 'range' and all(isinstance(a, int) for a in args):
            return list(range(*args))
        if name == 'print':
            return None
        if name == 'next' and args:
            if isinstance(args[0], GenList):
                if len(args[0]):
                    return args[0].pop(0)
                if args[0].pending is not None:
                    raise args[0].pending
                if len(args) > 1:
                    return args[1]
                raise Raised('StopIteration')
            if isinstance(args[0], (list, tuple, set, frozenset, dict, str)) or args[0] is None or isinstance(args[0], (int, Atom, EnumV)):
                raise Raised('TypeError', 'next() of something that is no iterator')
            raise Undecided('next()')
        if name == 'id' and len(args) == 1 and not kwargs:
            if isinstance(args[0], (list, dict, set, Obj)) and not isinstance(args[0], GenList):
                # the identity of a mutable object: an opaque name that is the same exactly for the same object (the objects
                # met are kept alive so that no two of them can share an address)
                keep = self.__dict__.setdefault('_id_keep', [])
                if not any(x is args[0] for x in keep):
                    keep.append(args[0])
                return Atom(f'id#{next(i for i, x in enumerate(keep) if x is args[0])}')
            raise Undecided('id() of an immutable value')
        if name == 'getattr' and len(args) in (2, 3) and isinstance(args[1], str) and not kwargs:
            try:
                return self.getattr(args[0], args[1], fn, depth)
            except Raised as exc_:
                if exc_.name == 'AttributeError' and len(args) == 3:
                    return args[2]
                raise
        if name == 'hasattr' and len(args) == 2 and isinstance(args[1], str) and not kwargs:
            try:
                self.getattr(args[0], args[1], fn, depth)
                return True
            except Raised as exc_:
                if exc_.name == 'AttributeError':
                    return False
                raise
        if name == 'iter' and len(args) == 1:
            return args[0] if isinstance(args[0], GenList) else _lazy(self.iterate(args[0]))
        if name == 'type' and len(args) == 1:
            if isinstance(args[0], Obj):
                return ClassRef(args[0].cls)
            if isinstance(args[0], EnumV):
                return ClassRef(args[0].cls)
            raise Undecided('type()')
        if name in EXC_BUILTINS:
            return Marker(('excobj', name))
        if name in ('map', 'filter') and len(args) == 2:
            items = self.iterate(args[1])
            if name == 'map':
                return _lazy(self.apply(args[0], [x], {}, None, fn, depth + 1) for x in items)
            return _lazy(x for x in items if self.truth(self.apply(args[0], [x], {}, None, fn, depth + 1) if args[0] is not None else x))
        if name in ('min', 'max') and args and not set(kwargs) - {'default'}:
            items = self.iterate(args[0]) if len(args) == 1 else list(args)
            if all(isinstance(x, int) for x in items) or all(isinstance(x, str) for x in items):
                if not items:
                    if 'default' in kwargs:
                        return kwargs['default']
                    raise Raised('ValueError', f'{name}() of an empty sequence')
                return min(items) if name == 'min' else max(items)
            raise Undecided(f'{name}() of values without a modelled order')
        if name == 'sum' and 1 <= len(args) <= 2:
            items = self.iterate(args[0])
            if all(isinstance(x, int) for x in items) and (len(args) == 1 or isinstance(args[1], int)):
                return sum(items, args[1] if len(args) == 2 else 0)
            raise Undecided('sum of non-numbers')
        if name == 'abs' and len(args) == 1 and isinstance(args[0], int):
            return abs(args[0])
        if name == 'int' and len(args) == 1 and isinstance(args[0], (int, str)):
            try:
                return int(args[0])
            except ValueError:
                raise Raised('ValueError')
        if name in ('int', 'object'):
            raise Undecided(f'builtin {name}')
        raise Undecided(f'builtin {name}')

    def method(self, recv: Any, name: str, args: List[Any], kwargs: Dict[str, Any], fn: FuncInfo, depth: int) -> Any:
        if isinstance(recv, Obj):
            if name == '_replace' and not args:
                unknown = [k for k in kwargs if k not in recv.fields]
                if unknown:
                    raise Raised('ValueError', f'_replace: unexpected field names {unknown}')
                return Obj(recv.cls, {**recv.fields, **kwargs})
            if name == '_asdict' and not args and not kwargs:
                return dict(recv.fields)
            raise Undecided(f'record method {name}')
        if isinstance(recv, dict):
            if name == 'get' and 1 <= len(args) <= 2:
                self._hashable(args[0])
                for k, v in recv.items():
                    if self.equal(k, args[0]):
                        return v
                return args[1] if len(args) == 2 else None
            if name == 'update':
                for a in args:
                    if isinstance(a, dict):
                        for k, v in a.items():
                            self._dict_set(recv, k, v)
                    else:
                        for kv in self.iterate(a):
                            k, v = self.iterate(kv)
                            self._dict_set(recv, k, v)
                for k, v in kwargs.items():
                    recv[k] = v
                return None
            if name == 'items' and not args:
                return KeysView((k, v) for k, v in recv.items())
            if name == 'keys' and not args:
                return KeysView(recv.keys())
            if name == 'values' and not args:
                return list(recv.values())
            if name == 'setdefault' and 1 <= len(args) <= 2:
                for k, v in recv.items():
                    if self.equal(k, args[0]):
                        return v
                self._hashable(args[0])
                recv[args[0]] = args[1] if len(args) == 2 else None
                return recv[args[0]]
            if name == 'pop' and 1 <= len(args) <= 2:
                for k in list(recv):
                    if self.equal(k, args[0]):
                        return recv.pop(k)
                if len(args) == 2:
                    return args[1]
                raise Raised('KeyError')
            if name == 'copy':
                return dict(recv)
            if name == 'clear' and not args and not kwargs:
                recv.clear()
                return None
            if name == 'popitem' and not args and not kwargs:
                if not recv:
                    raise Raised('KeyError', 'popitem of an empty dict')
                return tuple(recv.popitem())
        if isinstance(recv, (set, frozenset)):
            if name in ('union', 'intersection', 'difference', 'symmetric_difference'):
                op = {'union': ast.BitOr(), 'intersection': ast.BitAnd(), 'difference': ast.Sub(), 'symmetric_difference': ast.BitXor()}[name]
                r = set(recv)
                for a in args:
                    r = self.binop(op, r, set(self.iterate(a)))
                return r
            if name in ('issubset', 'issuperset', 'isdisjoint') and len(args) == 1:
                other = set(self.iterate(args[0]))
                if name == 'issubset':
                    return all(self.contains(other, x) for x in recv)
                if name == 'issuperset':
                    return all(self.contains(recv, x) for x in other)
                return not any(self.contains(other, x) for x in recv)
            if name == 'copy':
                return set(recv)
            if isinstance(recv, set):
                if name == 'add' and len(args) == 1:
                    self._hashable(args[0])
                    if not self.contains(recv, args[0]):
                        recv.add(args[0])
                    return None
                if name == 'update':
                    for a in args:
                        for x in self.iterate(a):
                            if not self.contains(recv, x):
                                recv.add(x)
                    return None
                if name in ('discard', 'remove') and len(args) == 1:
                    for x in list(recv):
                        if self.equal(x, args[0]):
                            recv.discard(x)
                            return None
                    if name == 'remove':
                        raise Raised('KeyError')
                    return None
                if name == 'pop' and not args:
                    if not recv:
                        raise Raised('KeyError')
                    raise Undecided('set.pop picks an arbitrary element')
        if isinstance(recv, list):
            if name == 'append' and len(args) == 1:
                recv.append(args[0])
                return None
            if name == 'extend' and len(args) == 1:
                recv.extend(self.iterate(args[0]))
                return None
            if name == 'pop' and len(args) <= 1:
                try:
                    return recv.pop(*args)
                except IndexError:
                    raise Raised('IndexError')
            if name == 'copy':
                return list(recv)
            if name == 'clear' and not args and not kwargs:
                del recv[:]
                return None
            if name == 'reverse' and not args and not kwargs:
                recv.reverse()
                return None
            if name == 'index' and len(args) == 1:
                for i_, x_ in enumerate(recv):
                    if self.equal(x_, args[0]):
                        return i_
                raise Raised('ValueError', 'list.index: not in list')
            if name == 'count' and len(args) == 1:
                return sum(1 for x_ in recv if self.equal(x_, args[0]))
            if name == 'remove' and len(args) == 1:
                for i_, x_ in enumerate(recv):
                    if self.equal(x_, args[0]):
                        del recv[i_]
                        return None
                raise Raised('ValueError', 'list.remove: not in list')
            if name == 'insert' and len(args) == 2:
                recv.insert(args[0], args[1])
                return None
            if name == 'sort' and not args and not kwargs:
                raise Undecided('list.sort')
        if isinstance(recv, str):
            if name == 'join' and len(args) == 1:
                return recv.join(self.text(x) for x in self.iterate(args[0]))
            if name == 'format':
                return recv
            if name in ('strip', 'lower', 'upper', 'lstrip', 'rstrip', 'splitlines', 'capitalize', 'title', 'isspace', 'isidentifier',
                        'isdigit', 'isalpha') and not args and not kwargs:
                return getattr(recv, name)()
            if name in ('strip', 'lstrip', 'rstrip', 'split', 'rsplit', 'count', 'find', 'removeprefix', 'removesuffix', 'ljust', 'rjust') \
                    and 1 <= len(args) <= 2 and all(isinstance(a, (str, int)) and not isinstance(a, bool) for a in args) and not kwargs:
                try:
                    return getattr(recv, name)(*args)
                except (ValueError, TypeError) as exc_:
                    raise Raised(type(exc_).__name__)
            if name == 'splitlines' and not args and set(kwargs) <= {'keepends'} and all(isinstance(v, bool) for v in kwargs.values()):
                return recv.splitlines(**kwargs)
            if name == 'replace' and len(args) == 2 and all(isinstance(a, str) for a in args):
                return recv.replace(*args)
            if name in ('startswith', 'endswith') and len(args) == 1 and isinstance(args[0], str):
                return getattr(recv, name)(args[0])
        raise Undecided(f'method {type(recv).__name__}.{name}')

    def _dict_set(self, d: dict, k: Any, v: Any):
        self._hashable(k)
        for kk in list(d):
            if self.equal(kk, k):
                d[kk] = v
                return
        d[k] = v
