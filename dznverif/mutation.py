"""E3c - ownership / mutation analysis.

For every mutation site (attribute / subscript store, del, augmented assignment, mutating container
method, package method summarised "mutates self", package function summarised "mutates parameter")
the *receiver roots* are computed by flow-insensitive copy propagation.  Roots:

  ('fresh', P)               an object allocated in this function.  P is a frozenset of (path, root): the
                             objects it may hold on to, by access path from the fresh object ("small heap").
                             ('fresh', {}) is deep-fresh.
  ('param', name, path)      (part of) a parameter of this function
  ('self', path)             (part of) the receiver object of this method
  ('global', qualified name) a mutable module-level object
  ('elem', text)             an object of unknown provenance

Summaries (fixpoint over the whole package):
  mut_param[f][p]  = witness Event      f may mutate (something reachable from) its parameter p
  mut_self[f]      = {path: witness}    f may mutate (something reachable from) self
  returns[f]       = roots the return value may alias, in f's own terms
  stores_self[f]   = {(path, root)}     what f stores into its receiver, by path (f's own terms)
"""
from __future__ import annotations

import ast
from dataclasses import dataclass
from typing import Any, Dict, List, Optional, Set, Tuple

from .model import Program, CallGraph, FuncInfo, ClassInfo, TypeEnv, Module, iter_own_nodes, strip_opt

FRESH = ('fresh', frozenset())
CONTAINER_MUTATORS = {'append', 'extend', 'insert', 'pop', 'remove', 'clear', 'sort', 'reverse', 'update', 'add',
                      'discard', 'setdefault', 'popitem', '__setitem__', '__delitem__', 'appendleft',
                      'difference_update', 'intersection_update', 'symmetric_difference_update'}
FRESH_BUILTINS = {'str', 'int', 'float', 'bool', 'len', 'repr', 'deepcopy', 'range', 'enumerate', 'zip', 'map',
                  'filter', 'any', 'all', 'sum', 'min', 'max', 'isinstance', 'hasattr', 'type', 'abs', 'bytes',
                  'format', 'iter', 'print', 'open', 'id', 'hash', 'list', 'dict', 'set', 'tuple', 'frozenset',
                  'sorted', 'reversed', 'callable', 'issubclass', 'ord', 'chr', 'round', 'divmod'}


K_PATH = 6      # access paths are k-limited; a trailing '*' stands for "anything below"


def limit(path: tuple) -> tuple:
    path = tuple(path)
    if '*' in path:
        path = path[:path.index('*') + 1]
    if len(path) > K_PATH:
        path = path[:K_PATH - 1] + ('*',)
    return path


def extend(path: tuple, step: str) -> tuple:
    if path and path[-1] == '*':
        return path
    return limit(path + (step,))


def is_fresh(r: tuple) -> bool:
    return r[0] == 'fresh'


def mkfresh(held) -> tuple:
    """held: iterable of (path, root).  Fresh roots held inside are flattened (their own heap is re-based),
    deep-fresh ones vanish."""
    heap = set()
    for path, r in held:
        if r[0] == 'fresh':
            for p2, r2 in r[1]:
                heap.add((limit(tuple(path) + tuple(p2)), r2))
        else:
            heap.add((limit(tuple(path)), r))
    return ('fresh', frozenset(heap))


def step_roots(rs, step: str) -> Set[tuple]:
    """Roots of the part `step` (attribute name or '[]') of objects with roots `rs`."""
    out: Set[tuple] = set()
    for r in rs:
        if r[0] == 'fresh':
            exact, deeper = set(), set()
            for path, held in r[1]:
                if not path:
                    continue
                if path[0] == '*':
                    exact.add(held)
                    deeper.add((path, held))
                elif path[0] == step or step == '*':
                    if len(path) == 1:
                        exact.add(held)
                    else:
                        deeper.add((path[1:], held))
            out |= exact
            if deeper or not exact:
                out.add(('fresh', frozenset(deeper)))
        elif r[0] == 'param':
            out.add(('param', r[1], extend(r[2], step)))
        elif r[0] == 'self':
            out.add(('self', extend(r[1], step)))
        else:
            out.add(r)
    return out


def walk_roots(rs, path) -> Set[tuple]:
    cur = set(rs)
    for stp in path:
        cur = step_roots(cur, stp)
    return cur


@dataclass
class Event:
    fn: FuncInfo
    node: ast.AST            # the mutating statement / call
    receiver: ast.AST        # receiver expression
    roots: Set[tuple]
    how: str                 # description of the mutation
    via: Optional['Event'] = None     # callee-side witness when the event comes from a summary
    path: Tuple[str, ...] = ()

    def chain(self) -> List[str]:
        out, e = [], self
        while e is not None:
            out.append(f'{e.fn.fq}:{getattr(e.node, "lineno", 0)} {e.how}')
            e = e.via
        return out


class Mutations:
    def __init__(self, prog: Program, cg: CallGraph):
        self.prog = prog
        self.cg = cg
        self.mut_param: Dict[str, Dict[str, Event]] = {}
        self.mut_self: Dict[str, Dict[Tuple[str, ...], Event]] = {}
        self.returns: Dict[str, Set[tuple]] = {}
        self.stores_self: Dict[str, Set[tuple]] = {}
        self.events: Dict[str, List[Event]] = {}
        self._changed = True
        self._no_return: Set[str] = set()
        self._defs: Dict[str, Dict[str, List[Tuple[str, ast.AST]]]] = {}
        for fn in prog.all_functions():
            self._defs[fn.fq] = self._collect_defs(fn)

    # -- definitions of local names -----------------------------------------------------------
    def _collect_defs(self, fn: FuncInfo) -> Dict[str, List[Tuple[str, ast.AST]]]:
        defs: Dict[str, List[Tuple[str, ast.AST]]] = {}

        def bind(t, how):
            if isinstance(t, ast.Name):
                defs.setdefault(t.id, []).append(how)
            elif isinstance(t, (ast.Tuple, ast.List)):
                for e in t.elts:
                    bind(e, ('elem', how[1]))
            elif isinstance(t, ast.Starred):
                bind(t.value, ('elem', how[1]))

        for n in iter_own_nodes(fn.node):
            if isinstance(n, ast.Assign):
                for t in n.targets:
                    bind(t, ('expr', n.value))
            elif isinstance(n, ast.AnnAssign) and n.value is not None:
                bind(n.target, ('expr', n.value))
            elif isinstance(n, ast.AugAssign) and isinstance(n.target, ast.Name):
                defs.setdefault(n.target.id, []).append(('aug', n))
            elif isinstance(n, (ast.For, ast.AsyncFor)):
                bind(n.target, ('elem', n.iter))
            elif isinstance(n, ast.comprehension):
                bind(n.target, ('elem', n.iter))
            elif isinstance(n, ast.With):
                for item in n.items:
                    if item.optional_vars is not None:
                        bind(item.optional_vars, ('expr', item.context_expr))
            elif isinstance(n, ast.NamedExpr):
                bind(n.target, ('expr', n.value))
            elif isinstance(n, ast.ExceptHandler) and n.name:
                defs.setdefault(n.name, []).append(('fresh', n))
            # a local container that is filled: what it holds afterwards (flow-insensitive)
            elif isinstance(n, ast.Call) and isinstance(n.func, ast.Attribute) and isinstance(n.func.value, ast.Name) \
                    and n.args:
                if n.func.attr in ('append', 'add', 'appendleft'):
                    defs.setdefault(n.func.value.id, []).append(('fill', n.args[0]))
                elif n.func.attr == 'insert' and len(n.args) > 1:
                    defs.setdefault(n.func.value.id, []).append(('fill', n.args[1]))
                elif n.func.attr in ('extend', 'update'):
                    defs.setdefault(n.func.value.id, []).append(('fill-all', n.args[0]))
            elif isinstance(n, ast.Subscript) and isinstance(n.ctx, ast.Store) and isinstance(n.value, ast.Name):
                par = self.prog.parent(n)
                if isinstance(par, ast.Assign) and n in par.targets:
                    defs.setdefault(n.value.id, []).append(('fill', par.value))
        return defs

    def single_def(self, fn: FuncInfo, name: str) -> Optional[ast.AST]:
        d = self._defs[fn.fq].get(name, [])
        if len(d) == 1 and d[0][0] == 'expr':
            return d[0][1]
        return None

    # -- types ------------------------------------------------------------------------------------
    def _immutable_type(self, t: tuple) -> bool:
        t = strip_opt(t)
        if t[0] in ('str', 'int', 'bool', 'none', 'float', 'bytes'):
            return True
        if t[0] == 'cls':
            c = self.prog.classes.get(t[1])
            return bool(c and c.is_enum)
        if t[0] == 'union':
            return all(self._immutable_type(x) for x in t[1])
        return False

    def _global_root(self, mod: Module, name: str, value: ast.AST) -> Set[tuple]:
        from .rules.shared import is_immutable_value
        if is_immutable_value(self.prog, mod, value):
            return {FRESH}
        return {('global', f'{mod.name}.{name}')}

    # -- roots ----------------------------------------------------------------------------------
    def roots(self, fn: FuncInfo, e: ast.AST, _seen: Optional[Set] = None) -> Set[tuple]:
        prog = self.prog
        env = self.cg.env(fn)
        seen = _seen if _seen is not None else set()

        if isinstance(e, ast.Name):
            return self._name_roots(fn, e.id, seen)
        if isinstance(e, ast.Attribute):
            sym = prog.resolve_expr_symbol(fn.module, e)
            if isinstance(sym, tuple) and sym[0] == 'const':
                return self._global_root(sym[2], e.attr, sym[1])
            if isinstance(sym, tuple) and sym[0] in ('enum_member', 'ext'):
                return {FRESH}
            if isinstance(sym, (ClassInfo, FuncInfo, Module)):
                return {FRESH}
            base = self.roots(fn, e.value, seen)
            bt = strip_opt(env.type_of(e.value))
            ts = bt[1] if bt[0] == 'union' else [bt]
            out: Set[tuple] = set()
            handled = False
            for t in ts:
                t = strip_opt(t)
                if t[0] == 'cls' and t[1] in prog.classes:
                    m = prog.lookup_method(prog.classes[t[1]], e.attr)
                    if m is not None and m.is_property:
                        handled = True
                        out |= self._translate_returns(fn, m, base, {}, seen)
            if handled:
                return out
            return step_roots(base, e.attr)
        if isinstance(e, ast.Subscript):
            base = self.roots(fn, e.value, seen)
            if isinstance(e.slice, ast.Slice):
                return {mkfresh((('[]',), r) for r in step_roots(base, '[]'))}
            return step_roots(base, '[]')
        if isinstance(e, ast.Call):
            return self._call_roots(fn, e, seen)
        if isinstance(e, (ast.List, ast.Tuple, ast.Set)):
            held = []
            for x in e.elts:
                if not self._immutable_type(env.type_of(x)):
                    held.extend((('[]',), r) for r in self.roots(fn, x, seen))
            return {mkfresh(held)}
        if isinstance(e, ast.Dict):
            held = []
            for x in e.values:
                if x is not None and not self._immutable_type(env.type_of(x)):
                    held.extend((('[]',), r) for r in self.roots(fn, x, seen))
            return {mkfresh(held)}
        if isinstance(e, (ast.ListComp, ast.SetComp, ast.GeneratorExp)):
            if self._immutable_type(env.type_of(e.elt)):
                return {FRESH}
            return {mkfresh((('[]',), r) for r in self.roots(fn, e.elt, seen))}
        if isinstance(e, ast.DictComp):
            return {mkfresh((('[]',), r) for r in self.roots(fn, e.value, seen))}
        if isinstance(e, ast.BinOp):
            lt = strip_opt(env.type_of(e.left))
            rt = strip_opt(env.type_of(e.right))
            if lt[0] == 'cls' and lt[1] in prog.classes:
                op = {ast.Add: '__add__', ast.Sub: '__sub__', ast.BitOr: '__or__'}.get(type(e.op))
                m = prog.lookup_method(prog.classes[lt[1]], op) if op else None
                if m is not None:
                    ps = m.params()
                    other = ps[1].arg if len(ps) > 1 else None
                    return self._translate_returns(fn, m, self.roots(fn, e.left, seen),
                                                   {other: self.roots(fn, e.right, seen)}, seen)
            if lt[0] in ('str', 'int', 'float', 'bool') or rt[0] in ('str', 'int', 'float', 'bool'):
                return {FRESH}
            if self._immutable_type(TypeEnv.elem_type(lt)) and self._immutable_type(TypeEnv.elem_type(rt)):
                return {FRESH}
            # new container holding the operands' elements
            return {mkfresh([(('[]',), r) for r in step_roots(self.roots(fn, e.left, seen), '[]')]
                            + [(('[]',), r) for r in step_roots(self.roots(fn, e.right, seen), '[]')])}
        if isinstance(e, (ast.Constant, ast.JoinedStr, ast.Compare, ast.UnaryOp, ast.Lambda, ast.FormattedValue)):
            return {FRESH}
        if isinstance(e, ast.IfExp):
            return self.roots(fn, e.body, seen) | self.roots(fn, e.orelse, seen)
        if isinstance(e, ast.BoolOp):
            out = set()
            for v in e.values:
                out |= self.roots(fn, v, seen)
            return out
        if isinstance(e, (ast.NamedExpr, ast.Starred, ast.Await)):
            return self.roots(fn, e.value, seen)
        return {('elem', f'unmodelled expression {type(e).__name__}')}

    def _name_roots(self, fn: FuncInfo, name: str, seen: Set) -> Set[tuple]:
        key = (fn.fq, name)
        if key in seen:
            return set()
        seen = seen | {key}
        f: Optional[FuncInfo] = fn
        while f is not None:
            params = [a.arg for a in f.params()]
            if f.node.args.vararg:
                params.append(f.node.args.vararg.arg)
            if f.node.args.kwarg:
                params.append(f.node.args.kwarg.arg)
            defs = self._defs[f.fq].get(name)
            out: Set[tuple] = set()
            if name in params:
                if f.cls is not None and not f.is_static and f.parent is None and params and params[0] == name \
                        and name in ('self', 'cls'):
                    out.add(('self', ()))
                elif f is fn:
                    out.add(('param', name, ()))
                else:
                    out.add(('elem', f'parameter {name} of enclosing {f.qualname}'))
            if defs:
                env_f = self.cg.env(f)
                fills: List[Tuple[tuple, tuple]] = []
                for how, node in defs:
                    if how == 'expr':
                        out |= self.roots(f, node, seen)
                    elif how == 'elem':
                        out |= step_roots(self.roots(f, node, seen), '[]')
                    elif how == 'fresh':
                        out.add(FRESH)
                    elif how == 'fill':
                        if not self._immutable_type(env_f.type_of(node)):
                            fills.extend((('[]',), r) for r in self.roots(f, node, seen))
                    elif how == 'fill-all':
                        if not self._immutable_type(TypeEnv.elem_type(env_f.type_of(node))):
                            fills.extend((('[]',), r) for r in step_roots(self.roots(f, node, seen), '[]'))
                if fills:
                    # every fresh container bound to the name also holds what is put into it later
                    out = {mkfresh(list((p_, r_) for p_, r_ in r[1]) + fills) if r[0] == 'fresh' else r for r in out}
            if out or defs or name in params:
                return out or {FRESH}
            f = f.parent
        sym = self.prog.resolve_name(fn.module, name)
        if isinstance(sym, tuple) and sym[0] == 'const':
            return self._global_root(sym[2], name, sym[1])
        return {FRESH}   # classes, functions, builtins, modules

    def _call_roots(self, fn: FuncInfo, c: ast.Call, seen) -> Set[tuple]:
        prog, env = self.prog, self.cg.env(fn)
        f = c.func
        if isinstance(f, ast.Name) and prog.resolve_name(fn.module, f.id) is None and f.id not in env.vars \
                and f.id not in env._assign_sites:
            if f.id in ('list', 'tuple', 'sorted', 'reversed', 'set', 'frozenset', 'dict', 'copy') and c.args:
                if self._immutable_type(TypeEnv.elem_type(env.type_of(c.args[0]))):
                    return {FRESH}
                return {mkfresh((('[]',), r) for r in step_roots(self.roots(fn, c.args[0], seen), '[]'))}
            if f.id in FRESH_BUILTINS:
                return {FRESH}
            if f.id == 'getattr' and len(c.args) >= 2:
                # some attribute of the object (whichever the name says): rooted where the object is
                out_ = set(step_roots(self.roots(fn, c.args[0], seen), '*'))
                if len(c.args) > 2:
                    out_ |= self.roots(fn, c.args[2], seen)
                return out_
            if f.id in ('next', 'getattr'):
                return {('elem', f'{f.id}() result')}
        callees = env.resolve_call(c)
        out: Set[tuple] = set()
        known = False
        for callee in callees:
            if isinstance(callee, tuple) and callee[0] == 'ctor':
                out.add(self._ctor_root(fn, c, callee[1], seen))
                known = True
            elif isinstance(callee, tuple) and callee[0] == 'ext':
                known = True
                if callee[1] in ('copy.deepcopy',) or callee[1].startswith(('os.path.', 'hashlib.', 're.', 'orjson.')):
                    out.add(FRESH)
                elif callee[1] == 'copy.copy' and c.args:
                    out.add(mkfresh((('*',), r) for r in step_roots(self.roots(fn, c.args[0], seen), '*')))
                else:
                    out.add(('elem', f'result of external {callee[1]}'))
            elif isinstance(callee, tuple) and callee[0] == 'builtin':
                known = True
                meth = callee[1].split('.')[-1]
                if meth in ('pop', 'get', 'setdefault', 'popitem') and isinstance(f, ast.Attribute):
                    out |= step_roots(self.roots(fn, f.value, seen), '[]')
                elif meth in ('values', 'items', 'keys') and isinstance(f, ast.Attribute):
                    out.add(mkfresh((('[]',), r) for r in step_roots(self.roots(fn, f.value, seen), '[]')))
                elif meth == 'copy' and isinstance(f, ast.Attribute):
                    out.add(mkfresh((('[]',), r) for r in step_roots(self.roots(fn, f.value, seen), '[]')))
                else:
                    out.add(FRESH)
            elif isinstance(callee, FuncInfo):
                if callee.name in ('__init__', '__post_init__'):
                    continue
                known = True
                recv = self.roots(fn, f.value, seen) if isinstance(f, ast.Attribute) else set()
                args = self._arg_roots(fn, c, callee, seen)
                out |= self._translate_returns(fn, callee, recv, args, seen)
        if not known:
            out.add(('elem', f'result of unresolved call {ast.unparse(f)[:50]}'))
        return out

    def _ctor_root(self, fn: FuncInfo, c: ast.Call, cls: ClassInfo, seen) -> tuple:
        """A freshly constructed object and what it may hold on to: for classes with an explicit __init__ what
        __init__ stores into self (summary), for dataclasses the arguments by field name."""
        prog, env = self.prog, self.cg.env(fn)
        init = prog.lookup_method(cls, '__init__')
        post = prog.lookup_method(cls, '__post_init__')
        held: List[Tuple[tuple, tuple]] = []
        if init is None:
            names = list(prog.class_fields(cls).keys())
            for i, a in enumerate(c.args):
                fld = names[i] if i < len(names) else '*'
                if not self._immutable_type(env.type_of(a)):
                    held.extend(((fld,), r) for r in self.roots(fn, a, seen))
            for k in c.keywords:
                if not self._immutable_type(env.type_of(k.value)):
                    held.extend(((k.arg or '*',), r) for r in self.roots(fn, k.value, seen))
        else:
            args = self._arg_roots(fn, c, init, seen)
            held.extend(self._translate_stores(init, {FRESH}, args))
        if post is not None:
            held.extend(self._translate_stores(post, {FRESH}, {}))
        return mkfresh(held)

    def _arg_roots(self, fn: FuncInfo, c: ast.Call, callee: FuncInfo, seen) -> Dict[Any, Set[tuple]]:
        params = callee.params()
        offset = 1 if (callee.cls is not None and not callee.is_static and callee.parent is None and params
                       and params[0].arg in ('self', 'cls')) else 0
        out: Dict[Any, Set[tuple]] = {}
        for i, a in enumerate(c.args):
            j = i + offset
            if j < len(params) and not isinstance(a, ast.Starred):
                out[params[j].arg] = self.roots(fn, a, seen)
        for kw in c.keywords:
            if kw.arg:
                out[kw.arg] = self.roots(fn, kw.value, seen)
        return out

    def _translate_root(self, r: tuple, recv: Set[tuple], args: Dict[Any, Set[tuple]]) -> Set[tuple]:
        """One callee-term root in caller terms."""
        if r[0] == 'param':
            src = args.get(r[1])
            if src is None:
                return {FRESH}          # parameter left at its default value
            return walk_roots(src, r[2])
        if r[0] == 'self':
            return walk_roots(recv or {('elem', 'receiver')}, r[1])
        if r[0] == 'fresh':
            held = []
            for path, h in r[1]:
                for t in self._translate_root(h, recv, args):
                    held.append((path, t))
            return {mkfresh(held)}
        return {r}

    def _translate_returns(self, fn: FuncInfo, callee: FuncInfo, recv: Set[tuple], args: Dict[Any, Set[tuple]],
                           seen) -> Set[tuple]:
        rets = self.returns.get(callee.fq)
        if rets is None:
            return {FRESH} if callee.fq in self._no_return else set()
        out: Set[tuple] = set()
        for r in rets:
            out |= self._translate_root(r, recv, args)
        return out

    def _translate_stores(self, callee: FuncInfo, recv: Set[tuple], args) -> List[Tuple[tuple, tuple]]:
        out = []
        for path, r in self.stores_self.get(callee.fq, set()):
            for t in self._translate_root(r, recv, args):
                if t == FRESH:
                    continue
                out.append((path, t))
        return out

    # -- fixpoint ---------------------------------------------------------------------------------
    def solve(self, max_iter: int = 20) -> int:
        fns = self.prog.all_functions()
        self._no_return = {f.fq for f in fns
                           if not any(isinstance(n, ast.Return) and n.value is not None
                                      for n in iter_own_nodes(f.node))}
        it = 0
        while self._changed and it < max_iter:
            self._changed = False
            it += 1
            for fn in fns:
                self._summarise_returns(fn)
            for fn in fns:
                if fn.cls is not None and not fn.is_static:
                    self._summarise_stores(fn)
            for fn in fns:
                self._analyse(fn)
        return it

    def _summarise_returns(self, fn: FuncInfo):
        rs: Set[tuple] = set()
        has = False
        for n in iter_own_nodes(fn.node):
            if isinstance(n, ast.Return) and n.value is not None:
                has = True
                rs |= self.roots(fn, n.value)
        if not has:
            return
        old = self.returns.get(fn.fq)
        if old is None or not rs <= old:
            self.returns[fn.fq] = (old or set()) | rs
            self._changed = True

    def _summarise_stores(self, fn: FuncInfo):
        env = self.cg.env(fn)
        st: Set[tuple] = set()

        def self_paths(e) -> List[tuple]:
            return [r[1] for r in self.roots(fn, e) if r[0] == 'self']

        def add(path, roots):
            for r in roots:
                if r == FRESH:
                    continue
                if r[0] == 'fresh':
                    for p2, r2 in r[1]:
                        if r2[0] != 'self':
                            st.add((limit(tuple(path) + tuple(p2)), r2))
                elif r[0] != 'self':
                    st.add((limit(tuple(path)), r))

        for n in iter_own_nodes(fn.node):
            if isinstance(n, (ast.Assign, ast.AnnAssign)) and n.value is not None:
                tgts = n.targets if isinstance(n, ast.Assign) else [n.target]
                for t in tgts:
                    if isinstance(t, (ast.Attribute, ast.Subscript)):
                        step = t.attr if isinstance(t, ast.Attribute) else '[]'
                        for sp in self_paths(t.value):
                            if not self._immutable_type(env.type_of(n.value)):
                                add(sp + (step,), self.roots(fn, n.value))
            elif isinstance(n, ast.Call) and isinstance(n.func, ast.Attribute):
                sps = self_paths(n.func.value)
                if not sps:
                    continue
                meth = n.func.attr
                callees = env.resolve_call(n)
                if any(isinstance(c, tuple) and c[0] == 'builtin' for c in callees):
                    for a in n.args:
                        t = env.type_of(a)
                        for sp in sps:
                            if meth in ('append', 'add', 'insert', 'setdefault', '__setitem__'):
                                if not self._immutable_type(t):
                                    add(sp + ('[]',), self.roots(fn, a))
                            elif meth in ('extend', 'update'):
                                if not self._immutable_type(TypeEnv.elem_type(t)):
                                    add(sp + ('[]',), step_roots(self.roots(fn, a), '[]'))
                for c in callees:
                    if isinstance(c, FuncInfo) and self.stores_self.get(c.fq) and c.name not in ('__init__',):
                        args = self._arg_roots(fn, n, c, None)
                        for sp in sps:
                            for path, t in self._translate_stores(c, {('self', ())}, args):
                                add(sp + path, {t})
        old = self.stores_self.get(fn.fq, set())
        if not st <= old:
            self.stores_self[fn.fq] = old | st
            self._changed = True

    def _record(self, ev: Event):
        fn = ev.fn
        is_ctor = fn.name in ('__init__', '__post_init__', '__new__')
        for r in ev.roots:
            if r[0] == 'param':
                tbl = self.mut_param.setdefault(fn.fq, {})
                if r[1] not in tbl:
                    tbl[r[1]] = ev
                    self._changed = True
            elif r[0] == 'self' and not is_ctor:
                tbl2 = self.mut_self.setdefault(fn.fq, {})
                if r[1] not in tbl2:
                    tbl2[r[1]] = ev
                    self._changed = True

    def _analyse(self, fn: FuncInfo):
        prog, env = self.prog, self.cg.env(fn)
        events: List[Event] = []

        def emit(node, receiver, how, via=None, extra_path=('*',)):
            """extra_path: steps from the receiver object to the mutated object (all but the last) and the
            slot / operation that is written (last)."""
            rs = walk_roots(self.roots(fn, receiver), extra_path[:-1])
            slot = extra_path[-1]
            new = set()
            for r in rs:
                if r[0] == 'param':
                    new.add(('param', r[1], extend(r[2], slot)))
                elif r[0] == 'self':
                    new.add(('self', extend(r[1], slot)))
                else:
                    new.add(r)
            ev = Event(fn, node, receiver, new, how, via, extra_path)
            events.append(ev)
            self._record(ev)

        for n in iter_own_nodes(fn.node):
            if isinstance(n, (ast.Attribute, ast.Subscript)) and isinstance(n.ctx, (ast.Store, ast.Del)):
                p = prog.parent(n)
                while p is not None and not isinstance(p, ast.stmt):
                    p = prog.parent(p)
                stmt = p or n
                if isinstance(n, ast.Attribute):
                    bt = strip_opt(env.type_of(n.value))
                    setter = None
                    if bt[0] == 'cls' and bt[1] in prog.classes:
                        setter = prog.lookup_setter(prog.classes[bt[1]], n.attr)
                    emit(stmt, n.value, f'attribute store .{n.attr}' + (' (property setter)' if setter else ''),
                         extra_path=(n.attr,))
                else:
                    emit(stmt, n.value, 'subscript store', extra_path=('[]',))
            elif isinstance(n, ast.AugAssign):
                t = n.target
                if isinstance(t, ast.Name):
                    tt = strip_opt(env.type_of(t))
                    if tt[0] in ('list', 'set', 'dict', 'any'):
                        emit(n, t, 'augmented assignment (in-place for containers)')
                    elif tt[0] == 'cls' and tt[1] in prog.classes:
                        opname = {ast.Add: '__iadd__', ast.Sub: '__isub__', ast.BitOr: '__ior__'}.get(type(n.op))
                        m = prog.lookup_method(prog.classes[tt[1]], opname) if opname else None
                        if m is not None and self.mut_self.get(m.fq):
                            for path, w in self.mut_self[m.fq].items():
                                emit(n, t, f'{opname} mutates its receiver', via=w, extra_path=path)
            elif isinstance(n, ast.Call):
                f = n.func
                callees = env.resolve_call(n)
                if isinstance(f, ast.Name) and f.id in ('setattr', 'delattr') and n.args:
                    emit(n, n.args[0], f'{f.id}()')
                    continue
                if isinstance(f, ast.Attribute) and f.attr in ('__setattr__', '__delattr__', '__setitem__') and \
                        isinstance(f.value, ast.Name) and f.value.id == 'object' and n.args:
                    emit(n, n.args[0], f'object.{f.attr}() bypass')
                    continue
                if isinstance(f, ast.Attribute) and isinstance(f.value, ast.Attribute) and f.value.attr == '__dict__':
                    emit(n, f.value.value, '__dict__ access')
                if isinstance(f, ast.Attribute) and f.attr in CONTAINER_MUTATORS:
                    if any(isinstance(c, tuple) and c[0] in ('builtin', 'unknown', 'byname') for c in callees) \
                            or not callees:
                        rt = strip_opt(env.type_of(f.value))
                        if rt[0] != 'str':
                            emit(n, f.value, f'container method .{f.attr}()')
                for callee in callees:
                    if not isinstance(callee, FuncInfo):
                        continue
                    if isinstance(f, ast.Attribute) and callee.cls is not None and self.mut_self.get(callee.fq) \
                            and callee.name not in ('__init__', '__post_init__'):
                        is_super = isinstance(f.value, ast.Call) and isinstance(f.value.func, ast.Name) \
                            and f.value.func.id == 'super'
                        recv_expr = ast.Name(id='self', ctx=ast.Load()) if is_super else f.value
                        for path, w in self.mut_self[callee.fq].items():
                            emit(n, recv_expr, f'call of {callee.qualname} which mutates its receiver', via=w,
                                 extra_path=path)
                    mp = self.mut_param.get(callee.fq)
                    if mp:
                        params = callee.params()
                        offset = 1 if (callee.cls is not None and not callee.is_static and callee.parent is None
                                       and params and params[0].arg in ('self', 'cls')) else 0
                        bound: Dict[str, ast.AST] = {}
                        for i, a in enumerate(n.args):
                            j = i + offset
                            if j < len(params) and not isinstance(a, ast.Starred):
                                bound[params[j].arg] = a
                        for kw in n.keywords:
                            if kw.arg:
                                bound[kw.arg] = kw.value
                        for pname, w in mp.items():
                            if pname in bound:
                                wpath = next((r[2] for r in w.roots if r[0] == 'param' and r[1] == pname), ('*',))
                                emit(n, bound[pname], f'call of {callee.qualname} which mutates parameter {pname}',
                                     via=w, extra_path=wpath or ('*',))
        self.events[fn.fq] = events

    # -- helpers for rules --------------------------------------------------------------------------
    def static_prefix_types(self, fn: FuncInfo, receiver: ast.AST) -> List[Tuple[str, tuple]]:
        """(text, type) of the receiver expression and each prefix of its attribute/subscript chain."""
        env = self.cg.env(fn)
        out = []
        e = receiver
        while True:
            out.append((ast.unparse(e), env.type_of(e)))
            if isinstance(e, (ast.Attribute, ast.Subscript)):
                e = e.value
            elif isinstance(e, ast.Call) and isinstance(e.func, ast.Attribute):
                e = e.func.value
            else:
                break
        return out
