"""E4 - generator template abstraction (string analysis by abstract interpretation).

Abstract values for the string-building code of the generator:

  TStr   sequence of parts:  Lit(text) | Hole(sym, transform) | AltS(cond, a, b) | RepS(sep, elem, var, src)
                             | CommentS(text) | FqnS(ns, root) | OpaqueS(reason)
  TList  items:              Val | RepL(var, src, items) | AltL(cond, items_a, items_b)
  TBlock a TextBlock: list of line items (layout only: indent/trim/chunk keep the token stream)
  Sym    a symbolic model value: root (parameter / loop variable) + attribute path, with its E1 type
  Cond   boolean expression over Syms (not/and/or/eq/ne/is_none/truthy/nonempty/...)
  TObj   a constructed dataclass / class instance with abstract fields (Function, Fqn, MemberVariable, ...)
  TNone, TConst, TEnum, TFunc (closure), TRaise, TOpaque

Package functions, methods, properties and __str__ are inlined (bounded depth); the text-layer combinators
(TextBlock, chunk, cond_chunk, flatten_to_strlist, Comment, indent, trim, plural) are modelled natively as
layout.  Anything else becomes Opaque, which a rule that needs it reports as ANALYSIS-ERROR.
"""
from __future__ import annotations

import ast
import itertools
from dataclasses import dataclass, field
from typing import Any, Dict, List, Optional, Set, Tuple, Union

from .model import Program, CallGraph, FuncInfo, ClassInfo, TypeEnv, Module, strip_opt, ANY, t_cls, iter_own_nodes
from .report import AnalysisError

_ids = itertools.count(1)


# ------------------------------------------------------------------------------------------------------------
# values
# ------------------------------------------------------------------------------------------------------------
@dataclass(frozen=True)
class Sym:
    root: str
    path: Tuple[str, ...] = ()
    typ: tuple = ANY

    def attr(self, name: str, typ: tuple = ANY) -> 'Sym':
        return Sym(self.root, self.path + (name,), typ)

    def text(self) -> str:
        return '.'.join((self.root.split('#')[0],) + self.path)

    def key(self) -> Tuple[str, Tuple[str, ...]]:
        return (self.root, self.path)

    def __repr__(self):
        return f'<{self.text()}>'


@dataclass(frozen=True)
class Cond:
    op: str
    args: tuple = ()

    def __repr__(self):
        if self.op in ('truthy', 'nonempty', 'is_none', 'not_none'):
            return f'{self.op}({self.args[0]!r})'
        if self.op == 'not':
            return f'!{self.args[0]!r}'
        if self.op in ('and', 'or'):
            return '(' + f' {self.op} '.join(repr(a) for a in self.args) + ')'
        if self.op in ('eq', 'ne', 'in', 'is', 'isnot'):
            return f'({self.args[0]!r} {self.op} {self.args[1]!r})'
        if self.op == 'const':
            return str(self.args[0])
        return f'{self.op}{self.args!r}'


TRUE, FALSE = Cond('const', (True,)), Cond('const', (False,))


def c_not(c: Cond) -> Cond:
    if c.op == 'const':
        return FALSE if c.args[0] else TRUE
    if c.op == 'not':
        return c.args[0]
    return Cond('not', (c,))


@dataclass
class Lit:
    text: str


@dataclass
class Hole:
    sym: Sym
    transform: str = ''


@dataclass
class AltS:
    cond: Cond
    a: 'TStr'
    b: 'TStr'


@dataclass
class RepS:
    sep: 'TStr'
    elem: 'TStr'
    src: 'Src'


@dataclass
class CommentS:
    body: 'TStr'


@dataclass
class FqnS:
    ns: Any
    root: Any          # Cond


@dataclass
class OpaqueS:
    reason: str


class TStr:
    def __init__(self, parts: Optional[list] = None):
        self.parts: list = []
        for p in parts or []:
            self._add(p)

    def _add(self, p):
        if isinstance(p, TStr):
            for q in p.parts:
                self._add(q)
        elif isinstance(p, Lit):
            if not p.text:
                return
            if self.parts and isinstance(self.parts[-1], Lit):
                self.parts[-1] = Lit(self.parts[-1].text + p.text)
            else:
                self.parts.append(Lit(p.text))
        else:
            self.parts.append(p)

    def __add__(self, other: 'TStr') -> 'TStr':
        return TStr(self.parts + other.parts)

    def is_const(self) -> bool:
        return all(isinstance(p, Lit) for p in self.parts)

    def const(self) -> Optional[str]:
        return ''.join(p.text for p in self.parts) if self.is_const() else None

    def __repr__(self):
        out = []
        for p in self.parts:
            if isinstance(p, Lit):
                out.append(p.text)
            elif isinstance(p, Hole):
                out.append('{' + p.sym.text() + (':' + p.transform if p.transform else '') + '}')
            elif isinstance(p, AltS):
                out.append(f'[{p.cond!r} ? {p.a!r} : {p.b!r}]')
            elif isinstance(p, RepS):
                out.append(f'<<{p.elem!r} sep={p.sep!r} for {p.src!r}>>')
            elif isinstance(p, CommentS):
                out.append(f'/*{p.body!r}*/')
            elif isinstance(p, FqnS):
                out.append(f'FQN({p.ns!r}, root={p.root!r})')
            elif isinstance(p, OpaqueS):
                out.append(f'?{p.reason}?')
        return ''.join(out)


def lit(s: str) -> TStr:
    return TStr([Lit(s)])


@dataclass
class Src:
    base: Any                    # Sym | TList
    var: Sym
    filters: List[Cond] = field(default_factory=list)
    order: str = ''              # '' (source order) | 'reversed' | 'sorted'

    def __repr__(self):
        f = (' if ' + ' and '.join(repr(c) for c in self.filters)) if self.filters else ''
        b = f'{self.order}({self.base!r})' if self.order else repr(self.base)
        return f'{self.var!r} in {b}{f}'


@dataclass
class RepL:
    src: Src
    items: list


@dataclass
class AltL:
    cond: Cond
    a: list
    b: list


class TList:
    def __init__(self, items: Optional[list] = None):
        self.items: list = list(items or [])

    def __repr__(self):
        return 'L' + repr(self.items)


class TBlock:
    """TextBlock: items are line values (TStr / TBlock / RepL / AltL / TNone)."""

    def __init__(self, items: Optional[list] = None, comment: bool = False):
        self.items: list = list(items or [])
        self.comment = comment

    def __repr__(self):
        return ('C' if self.comment else 'B') + repr(self.items)


@dataclass
class TObj:
    cls: ClassInfo
    fields: Dict[str, Any]

    def __repr__(self):
        return f'{self.cls.name}({", ".join(f"{k}={v!r}" for k, v in list(self.fields.items())[:6])})'


class TNoneT:
    def __repr__(self):
        return 'None'


TNone = TNoneT()


@dataclass
class TConst:
    value: Any


@dataclass
class TEnum:
    cls: ClassInfo
    member: str

    def __repr__(self):
        return f'{self.cls.name}.{self.member}'


@dataclass
class TFunc:
    fn: FuncInfo
    env: Dict[str, Any]


@dataclass
class TRaise:
    what: str


@dataclass
class TOpaque:
    reason: str


@dataclass
class TAlt:
    """A value that depends on a condition (non-string)."""
    cond: Cond
    a: Any
    b: Any


class _Fall:
    def __repr__(self):
        return '<falls through>'


_FALLTHROUGH = _Fall()


# ------------------------------------------------------------------------------------------------------------
# evaluator
# ------------------------------------------------------------------------------------------------------------
class Evaluator:
    MAX_DEPTH = 14

    def __init__(self, prog: Program, cg: CallGraph, atomic_classes: Tuple[str, ...] = ()):
        self.prog = prog
        self.cg = cg
        # symbolic values of these classes are rendered as one hole instead of inlining their __str__
        self.atomic_classes = set(atomic_classes)
        self.opaque_log: List[str] = []
        self.n_inlined = 0
        self.visited: Set[str] = set()           # fq names of the functions evaluated (inlined) so far
        self.lookups: Dict[str, tuple] = {}      # decl symbol root -> (function, name value, scope value, kind type)

    # -- symbol helpers -------------------------------------------------------------------------------------
    def new_sym(self, name: str, typ: tuple = ANY) -> Sym:
        return Sym(f'{name}#{next(_ids)}', (), typ)

    def param_sym(self, name: str, typ: tuple = ANY) -> Sym:
        return Sym(name, (), typ)

    @property
    def _const_cache(self) -> Dict[tuple, Any]:
        if not hasattr(self, '_const_cache_'):
            self._const_cache_ = {}
        return self._const_cache_

    def opaque(self, reason: str) -> TOpaque:
        self.opaque_log.append(reason)
        return TOpaque(reason)

    # -- calling ------------------------------------------------------------------------------------------------
    def call_function(self, fn: FuncInfo, args: List[Any], kwargs: Dict[str, Any], depth: int,
                      self_val: Any = None, closure: Optional[Dict[str, Any]] = None) -> Any:
        if depth > self.MAX_DEPTH:
            return self.opaque(f'inlining depth exceeded at {fn.qualname}')
        self.n_inlined += 1
        self.visited.add(fn.fq)
        env: Dict[str, Any] = dict(closure or {})
        a = fn.node.args
        pos = list(a.posonlyargs) + list(a.args)
        names = [p.arg for p in pos]
        vals = list(args)
        if self_val is not None and names and names[0] in ('self', 'cls'):
            env[names[0]] = self_val
            names = names[1:]
            pos = pos[1:]
        defaults = dict(zip([p.arg for p in (list(a.posonlyargs) + list(a.args))][len(a.posonlyargs) + len(a.args) - len(a.defaults):],
                            a.defaults))
        for i, nm in enumerate(names):
            if i < len(vals):
                env[nm] = vals[i]
            elif nm in kwargs:
                env[nm] = kwargs[nm]
            elif nm in defaults:
                env[nm] = self.eval(defaults[nm], {}, fn, depth + 1)
            else:
                env[nm] = self.opaque(f'missing argument {nm} of {fn.qualname}')
        if a.vararg is not None:
            env[a.vararg.arg] = TList(list(vals[len(names):]))
        for p, d in zip(a.kwonlyargs, a.kw_defaults):
            if p.arg in kwargs:
                env[p.arg] = kwargs[p.arg]
            elif d is not None:
                env[p.arg] = self.eval(d, {}, fn, depth + 1)
        is_gen = any(isinstance(x, (ast.Yield, ast.YieldFrom)) for x in iter_own_nodes(fn.node))
        if is_gen:
            env['__yield__'] = TList([])
        falls, returns = self._block(fn.node.body, env, fn, depth)
        if is_gen:
            return env['__yield__']
        if falls:
            returns = returns + [(TRUE, TNone)]
        if not returns:
            return TNone
        # paths that raise do not come back: when some path returns a value, the result is that of the returning paths
        if any(not isinstance(v, TRaise) for _c, v in returns) and any(isinstance(v, TRaise) for _c, v in returns):
            returns = [(c, v) for c, v in returns if not isinstance(v, TRaise)]
        acc = returns[-1][1]
        for c, v in reversed(returns[:-1]):
            acc = self._alt(c, v, acc)
        return acc

    def eval_entry(self, fn: FuncInfo, bindings: Optional[Dict[str, Any]] = None) -> Any:
        """Evaluate fn with its parameters as symbolic roots (typed by their annotations)."""
        env_types = self.cg.env(fn)
        args = {}
        for p in fn.params():
            if bindings and p.arg in bindings:
                args[p.arg] = bindings[p.arg]
            else:
                args[p.arg] = self.param_sym(p.arg, env_types.vars.get(p.arg, ANY))
        return self.call_function(fn, [], args, 0, self_val=args.get('self'))

    # -- statements -------------------------------------------------------------------------------------------------
    def exec_block(self, stmts: List[ast.stmt], env: Dict[str, Any], fn: FuncInfo, depth: int) -> Any:
        """Executes statements in `env` (updated in place); returns the function's result if every path through the
        block returns, a TAlt over (returned value | fall-through marker) otherwise, or None when nothing returns."""
        falls, returns = self._block(stmts, env, fn, depth)
        if not returns:
            return None
        if falls:
            # some paths fall through: callers that continue after this block use exec via _block directly
            returns = returns + [(TRUE, _FALLTHROUGH)]
        acc = returns[-1][1]
        for c, v in reversed(returns[:-1]):
            acc = self._alt(c, v, acc)
        return acc

    def _block(self, stmts: List[ast.stmt], env: Dict[str, Any], fn: FuncInfo, depth: int
               ) -> Tuple[bool, List[Tuple[Cond, Any]]]:
        """Returns (falls_through, [(path condition, returned value)])."""
        returns: List[Tuple[Cond, Any]] = []
        path: List[Cond] = []

        def conj(extra: Optional[Cond] = None) -> Cond:
            cs = [c for c in path + ([extra] if extra is not None else []) if c != TRUE]
            if not cs:
                return TRUE
            return cs[0] if len(cs) == 1 else Cond('and', tuple(cs))

        def with_path(rs, extra: Optional[Cond]):
            out = []
            for c, v in rs:
                parts = [x for x in path + ([extra] if extra is not None else []) + [c] if x != TRUE]
                out.append((TRUE if not parts else parts[0] if len(parts) == 1 else Cond('and', tuple(parts)), v))
            return out

        for s in stmts:
            if isinstance(s, ast.Return):
                returns.append((conj(), self.eval(s.value, env, fn, depth) if s.value is not None else TNone))
                return False, returns
            if isinstance(s, ast.Raise):
                returns.append((conj(), TRaise(ast.unparse(s.exc)[:60] if s.exc is not None else 'raise')))
                return False, returns
            if isinstance(s, ast.If):
                cond = self.cond(s.test, env, fn, depth)
                if cond == TRUE or cond == FALSE:
                    f, rs = self._block(s.body if cond == TRUE else s.orelse, env, fn, depth)
                    returns.extend(with_path(rs, None))
                    if not f:
                        return False, returns
                    continue
                env_a, env_b = self._fork(env), self._fork(env)
                fa, ra = self._block(s.body, env_a, fn, depth)
                fb, rb = self._block(s.orelse, env_b, fn, depth) if s.orelse else (True, [])
                returns.extend(with_path(ra, cond))
                returns.extend(with_path(rb, c_not(cond)))
                if not fa and not fb:
                    return False, returns
                if not fa:
                    self._adopt(env, env_b)
                    path.append(c_not(cond))
                elif not fb:
                    self._adopt(env, env_a)
                    path.append(cond)
                else:
                    self._merge(env, cond, env_a, env_b)
                continue
            self.exec_stmt(s, env, fn, depth)
        return True, returns

    def _alt(self, cond: Cond, a: Any, b: Any) -> Any:
        if isinstance(a, TRaise) and isinstance(b, TRaise):
            return a
        if isinstance(a, TStr) and isinstance(b, TStr):
            return TStr([AltS(cond, a, b)])
        return TAlt(cond, a, b)

    def _fork(self, env: Dict[str, Any]) -> Dict[str, Any]:
        out = {}
        for k, v in env.items():
            if isinstance(v, TList):
                out[k] = TList(v.items)
            elif isinstance(v, TBlock):
                out[k] = TBlock(v.items, v.comment)
            elif isinstance(v, TObj):
                out[k] = TObj(v.cls, dict(v.fields))
            else:
                out[k] = v
        return out

    def _adopt(self, env: Dict[str, Any], other: Dict[str, Any]):
        # objects keep their identity across a branch that was forked off (the caller of a method holds the same object:
        # `self._x = v` after an `if bad: raise` must be seen by whoever constructed self)
        old = dict(env)
        env.clear()
        for k, v in other.items():
            o = old.get(k)
            if isinstance(v, TObj) and isinstance(o, TObj) and o.cls is v.cls and o is not v:
                o.fields.clear()
                o.fields.update(v.fields)
                env[k] = o
            else:
                env[k] = v

    def _merge(self, env: Dict[str, Any], cond: Cond, a: Dict[str, Any], b: Dict[str, Any]):
        keys = set(a) | set(b)
        for k in keys:
            va, vb = a.get(k, None), b.get(k, None)
            if va is vb:
                env[k] = va
                continue
            if isinstance(va, TList) and isinstance(vb, TList):
                # common prefix stays, the rest becomes an alternative
                n = 0
                while n < len(va.items) and n < len(vb.items) and va.items[n] is vb.items[n]:
                    n += 1
                ra, rb = va.items[n:], vb.items[n:]
                if not ra and not rb:
                    env[k] = TList(va.items)
                else:
                    env[k] = TList(va.items[:n] + [AltL(cond, ra, rb)])
                continue
            if isinstance(va, TStr) and isinstance(vb, TStr):
                if repr(va) == repr(vb):
                    env[k] = va
                else:
                    env[k] = TStr([AltS(cond, va, vb)])
                continue
            if va is None or vb is None:
                env[k] = TAlt(cond, va if va is not None else TOpaque('unbound'), vb if vb is not None else TOpaque('unbound'))
                continue
            if isinstance(va, TObj) and isinstance(vb, TObj) and va.cls is vb.cls:
                fields = {}
                for fk in set(va.fields) | set(vb.fields):
                    fa_, fb_ = va.fields.get(fk, TNone), vb.fields.get(fk, TNone)
                    if fa_ is fb_ or repr(fa_) == repr(fb_):
                        fields[fk] = fa_
                    elif isinstance(fa_, TStr) and isinstance(fb_, TStr):
                        fields[fk] = TStr([AltS(cond, fa_, fb_)])
                    else:
                        fields[fk] = TAlt(cond, fa_, fb_)
                o = env.get(k)
                if isinstance(o, TObj) and o.cls is va.cls:
                    o.fields.clear()
                    o.fields.update(fields)
                else:
                    env[k] = TObj(va.cls, fields)
                continue
            if repr(va) == repr(vb):
                env[k] = va
            else:
                env[k] = TAlt(cond, va, vb)

    def exec_stmt(self, s: ast.stmt, env: Dict[str, Any], fn: FuncInfo, depth: int):
        if isinstance(s, ast.Assign):
            val = self.eval(s.value, env, fn, depth)
            for t in s.targets:
                self._assign(t, val, env, fn, depth)
        elif isinstance(s, ast.AnnAssign):
            if s.value is not None:
                self._assign(s.target, self.eval(s.value, env, fn, depth), env, fn, depth)
        elif isinstance(s, ast.AugAssign):
            cur = self.eval(s.target, env, fn, depth)
            add = self.eval(s.value, env, fn, depth)
            if isinstance(s.op, ast.Add):
                if isinstance(cur, TStr):
                    self._assign(s.target, cur + self.to_str(add, depth), env, fn, depth)
                elif isinstance(cur, TList):
                    cur.items.extend(self.as_items(add))
                elif isinstance(cur, TBlock):
                    cur.items.extend(self.block_items(add, depth))
                else:
                    self._assign(s.target, self.opaque(f'augmented assignment on {type(cur).__name__}'), env, fn, depth)
            else:
                self._assign(s.target, self.opaque('augmented assignment'), env, fn, depth)
        elif isinstance(s, ast.Expr) and isinstance(s.value, (ast.Yield, ast.YieldFrom)) and '__yield__' in env:
            # a generator is evaluated as the list of what it yields: `yield x` appends, `yield from xs` extends
            y = s.value
            if y.value is not None:
                call = ast.Call(func=ast.Attribute(value=ast.Name(id='__yield__', ctx=ast.Load()),
                                                   attr='append' if isinstance(y, ast.Yield) else 'extend', ctx=ast.Load()),
                                args=[y.value], keywords=[])
                ast.copy_location(call, s)
                ast.fix_missing_locations(call)
                self.eval(call, env, fn, depth)
        elif isinstance(s, ast.Expr):
            self.eval(s.value, env, fn, depth)
        elif isinstance(s, (ast.For, ast.AsyncFor)):
            self._for(s, env, fn, depth)
        elif isinstance(s, (ast.FunctionDef, ast.AsyncFunctionDef)):
            nested = None
            f: Optional[FuncInfo] = fn
            while f is not None and nested is None:
                nested = f.nested.get(s.name)
                f = f.parent
            if nested is not None:
                env[s.name] = TFunc(nested, env)
        elif isinstance(s, (ast.Pass, ast.Import, ast.ImportFrom, ast.Global, ast.Nonlocal)):
            pass
        elif isinstance(s, ast.Try):
            r = self.exec_block(s.body, env, fn, depth)
            if r is not None:
                env['__early_return__'] = r
        elif isinstance(s, ast.With):
            self.exec_block(s.body, env, fn, depth)
        elif isinstance(s, ast.While):
            for name in {n.id for n in ast.walk(s) if isinstance(n, ast.Name) and isinstance(n.ctx, ast.Store)}:
                env[name] = self.opaque('assigned in a while loop')
        elif isinstance(s, ast.Assert):
            pass
        else:
            self.opaque(f'statement {type(s).__name__}')

    def _assign(self, t: ast.AST, val: Any, env: Dict[str, Any], fn: FuncInfo, depth: int):
        if isinstance(t, ast.Name):
            env[t.id] = val
        elif isinstance(t, ast.Starred):
            self._assign(t.value, val, env, fn, depth)
        elif isinstance(t, (ast.Tuple, ast.List)) and isinstance(val, TAlt) and isinstance(val.b, TRaise):
            self._assign(t, val.a, env, fn, depth)          # the other alternative does not come back
        elif isinstance(t, (ast.Tuple, ast.List)) and isinstance(val, TAlt) and isinstance(val.a, TRaise):
            self._assign(t, val.b, env, fn, depth)
        elif isinstance(t, (ast.Tuple, ast.List)) and isinstance(val, TAlt) and isinstance(val.b, TAlt) and \
                isinstance(val.b.b, TRaise):
            self._assign(t, TAlt(val.cond, val.a, val.b.a), env, fn, depth)
        elif isinstance(t, (ast.Tuple, ast.List)) and isinstance(val, TAlt) and \
                all(isinstance(x, TList) and len(x.items) == len(t.elts) and
                    all(not isinstance(y, (RepL, AltL)) for y in x.items) for x in (val.a, val.b)):
            # unpacking a conditional pair: each target is the conditional of the corresponding elements
            for i, e in enumerate(t.elts):
                self._assign(e, self._alt(val.cond, val.a.items[i], val.b.items[i]), env, fn, depth)
        elif isinstance(t, (ast.Tuple, ast.List)) and sum(isinstance(e_, ast.Starred) for e_ in t.elts) == 1 and \
                isinstance(val, TList) and not any(isinstance(y, (RepL, AltL)) for y in val.items) and len(val.items) >= len(t.elts) - 1:
            # `first, *rest = xs` / `*init, last = xs` over a list of known length
            k = next(i for i, e_ in enumerate(t.elts) if isinstance(e_, ast.Starred))
            after = len(t.elts) - k - 1
            for i, e_ in enumerate(t.elts[:k]):
                self._assign(e_, val.items[i], env, fn, depth)
            self._assign(t.elts[k].value, TList(list(val.items[k:len(val.items) - after])), env, fn, depth)
            for j, e_ in enumerate(t.elts[k + 1:]):
                self._assign(e_, val.items[len(val.items) - after + j], env, fn, depth)
        elif isinstance(t, (ast.Tuple, ast.List)):
            items = val.items if isinstance(val, TList) else None
            if isinstance(val, TObj) and any(str(b_).split('.')[-1] == 'NamedTuple' for b_ in val.cls.bases):
                names_ = list(self.prog.class_fields(val.cls))
                if len(names_) == len(t.elts) and all(n_ in val.fields for n_ in names_):
                    items = [val.fields[n_] for n_ in names_]          # a NamedTuple unpacks into its fields, in order
            for i, e in enumerate(t.elts):
                if items is not None and i < len(items) and not isinstance(items[i], (RepL, AltL)):
                    self._assign(e, items[i], env, fn, depth)
                else:
                    self._assign(e, self.opaque('unpacking'), env, fn, depth)
        elif isinstance(t, ast.Attribute):
            obj = self.eval(t.value, env, fn, depth)
            if isinstance(obj, TObj):
                # property setter or plain field
                obj.fields[t.attr] = val
                if t.attr.lstrip('_') != t.attr:
                    obj.fields[t.attr.lstrip('_')] = val
                else:
                    obj.fields['_' + t.attr] = val
        elif isinstance(t, ast.Subscript):
            pass

    def _for(self, s: ast.For, env: Dict[str, Any], fn: FuncInfo, depth: int):
        it = self.eval(s.iter, env, fn, depth)
        src = self.make_src(it, s.target, fn)
        if src is None:
            for name in {n.id for n in ast.walk(s) if isinstance(n, ast.Name) and isinstance(n.ctx, ast.Store)}:
                env[name] = self.opaque(f'loop over {type(it).__name__}')
            return
        # snapshot list lengths, run the body once abstractly, wrap the deltas
        before = {k: (v, len(v.items)) for k, v in env.items() if isinstance(v, (TList, TBlock))}
        for k, v in list(env.items()):
            if isinstance(v, tuple) and v and v[0] == 'dict':
                for i_, (_kk, vv) in enumerate(v[1]):
                    if isinstance(vv, (TList, TBlock)):
                        before[f'{k}\0{i_}'] = (vv, len(vv.items))
        if isinstance(s.target, ast.Name):
            env[s.target.id] = src.var
        r = self.exec_block(s.body, env, fn, depth)
        for k, (lst, n) in before.items():
            cur = env.get(k) if '\0' not in k else lst
            if isinstance(cur, (TList, TBlock)) and len(cur.items) > n and \
                    all(x is y for x, y in zip(cur.items[:n], lst.items[:n])):
                delta = cur.items[n:]
                del cur.items[n:]
                if len(delta) == 1 and isinstance(delta[0], AltL) and not delta[0].b:
                    # `for x in xs: if c: acc.append(e)`  is the filtered repetition  [e for x in xs if c]
                    fsrc = Src(src.base, src.var, list(src.filters) + [delta[0].cond], src.order)
                    cur.items.append(RepL(fsrc, list(delta[0].a)))
                else:
                    cur.items.append(RepL(src, delta))

    def make_src(self, it: Any, target: ast.AST, fn: FuncInfo, name_hint: str = 'x') -> Optional[Src]:
        name = target.id if isinstance(target, ast.Name) else name_hint
        if isinstance(it, tuple) and it and it[0] == 'ordered':
            inner_src = self.make_src(it[2], target, fn, name_hint)
            if inner_src is None:
                return None
            inner_src.order = it[1] if not inner_src.order else f'{it[1]}+{inner_src.order}'
            return inner_src
        if isinstance(it, Sym):
            et = TypeEnv.elem_type(it.typ)
            return Src(it, self.new_sym(name, et), [])
        if isinstance(it, TList):
            # a list that is itself a single repetition: iterate its source, filtered
            if len(it.items) == 1 and isinstance(it.items[0], RepL) and len(it.items[0].items) == 1 and \
                    isinstance(it.items[0].items[0], Sym) and it.items[0].items[0].key() == it.items[0].src.var.key():
                inner = it.items[0].src
                var = self.new_sym(name, inner.var.typ)
                return Src(inner.base, var, [self.subst_cond(c, inner.var, var) for c in inner.filters], inner.order)
            return Src(it, self.new_sym(name, ANY), [])
        return None

    # -- substitution of loop variables in conditions ---------------------------------------------------------------------
    def subst_val(self, v: Any, old: Sym, new: Sym) -> Any:
        if isinstance(v, Sym):
            if v.root == old.root and v.path[:len(old.path)] == old.path:
                return Sym(new.root, new.path + v.path[len(old.path):], v.typ)
            return v
        if isinstance(v, Cond):
            return self.subst_cond(v, old, new)
        return v

    def subst_cond(self, c: Cond, old: Sym, new: Sym) -> Cond:
        return Cond(c.op, tuple(self.subst_val(a, old, new) for a in c.args))

    # -- conditions ----------------------------------------------------------------------------------------------------------
    def cond(self, e: ast.expr, env: Dict[str, Any], fn: FuncInfo, depth: int) -> Cond:
        if isinstance(e, ast.UnaryOp) and isinstance(e.op, ast.Not):
            return c_not(self.cond(e.operand, env, fn, depth))
        if isinstance(e, ast.BoolOp):
            cs = [self.cond(v, env, fn, depth) for v in e.values]
            if isinstance(e.op, ast.And):
                if any(c == FALSE for c in cs):
                    return FALSE
                cs = [c for c in cs if c != TRUE]
                return TRUE if not cs else cs[0] if len(cs) == 1 else Cond('and', tuple(cs))
            if any(c == TRUE for c in cs):
                return TRUE
            cs = [c for c in cs if c != FALSE]
            return FALSE if not cs else cs[0] if len(cs) == 1 else Cond('or', tuple(cs))
        if isinstance(e, ast.Compare) and len(e.ops) == 1:
            a = self.eval(e.left, env, fn, depth)
            b = self.eval(e.comparators[0], env, fn, depth)
            op = e.ops[0]
            if isinstance(op, (ast.Is, ast.IsNot)) and b is TNone:
                c = self.is_none(a)
                return c if isinstance(op, ast.Is) else c_not(c)
            if isinstance(op, (ast.Eq, ast.NotEq, ast.Is, ast.IsNot)):
                return self._compare(a, b, isinstance(op, (ast.Eq, ast.Is)))
            if isinstance(op, (ast.In, ast.NotIn)):
                member = self._element_of(a, b)
                if member:
                    return TRUE if isinstance(op, ast.In) else FALSE
                c = Cond('in', (self.cond_leaf(a), self.cond_leaf(b)))
                return c if isinstance(op, ast.In) else c_not(c)
            return Cond('opaque', (ast.unparse(e)[:60],))
        v = self.eval(e, env, fn, depth)
        return self.truthy(v)

    @staticmethod
    def c_and(*cs: Cond) -> Cond:
        if any(c == FALSE for c in cs):
            return FALSE
        cs = tuple(c for c in cs if c != TRUE)
        return TRUE if not cs else cs[0] if len(cs) == 1 else Cond('and', cs)

    @staticmethod
    def c_or(*cs: Cond) -> Cond:
        if any(c == TRUE for c in cs):
            return TRUE
        cs = tuple(c for c in cs if c != FALSE)
        return FALSE if not cs else cs[0] if len(cs) == 1 else Cond('or', cs)

    def _compare(self, a: Any, b: Any, eq: bool) -> Cond:
        """a == b (eq) / a != b as a condition.  A value chosen by a condition (`X if c else Y`, a property with several
        returns) is compared alternative by alternative: (c and X == b) or (not c and Y == b); an alternative that raises
        does not come back and is left out."""
        for x, y, swap in ((a, b, False), (b, a, True)):
            if isinstance(x, TAlt):
                if isinstance(x.a, TRaise):
                    return self._compare(x.b, y, eq) if not swap else self._compare(y, x.b, eq)
                if isinstance(x.b, TRaise):
                    return self._compare(x.a, y, eq) if not swap else self._compare(y, x.a, eq)
                ca = self._compare(x.a, y, eq) if not swap else self._compare(y, x.a, eq)
                cb = self._compare(x.b, y, eq) if not swap else self._compare(y, x.b, eq)
                if ca == cb:
                    return ca
                return self.c_or(self.c_and(x.cond, ca), self.c_and(c_not(x.cond), cb))
        if b is TNone:
            c = self.is_none(a)
            return c if eq else c_not(c)
        for x_, y_ in ((a, b), (b, a)):
            if isinstance(x_, tuple) and x_ and x_[0] == 'len' and isinstance(x_[1], TList) and isinstance(y_, TConst) and \
                    isinstance(y_.value, int) and all(not isinstance(z_, (RepL, AltL)) for z_ in x_[1].items):
                return TRUE if (len(x_[1].items) == y_.value) == eq else FALSE
        if isinstance(a, tuple) and a and a[0] == 'len' and isinstance(b, tuple) and b and b[0] == 'len':
            same = self._same_length(a[1], b[1])
            if same is not None:
                return TRUE if same == eq else FALSE
        ka, kb = self.cond_leaf(a), self.cond_leaf(b)
        if isinstance(a, (TConst, TEnum)) and isinstance(b, (TConst, TEnum)):
            same = repr(a) == repr(b)
            return TRUE if same == eq else FALSE
        if isinstance(a, TStr) and isinstance(b, TStr) and a.is_const() and b.is_const():
            return TRUE if (a.const() == b.const()) == eq else FALSE
        return Cond('eq' if eq else 'ne', (ka, kb))

    def _same_length(self, x: Any, y: Any) -> Optional[bool]:
        """True when the two list values certainly have the same number of elements (the same unfiltered repetitions and the
        same number of plain items); None when not known."""
        def shape(v):
            if not isinstance(v, TList):
                return None
            out = []
            for it in v.items:
                if isinstance(it, RepL):
                    if it.src.order.startswith('partial') or any(isinstance(z, (RepL, AltL)) for z in it.items):
                        return None
                    out.append(('rep', repr(it.src.base), tuple(sorted(repr(self.subst_cond(f, it.src.var, Sym('_v'))) for f in it.src.filters)),
                                len(it.items)))
                elif isinstance(it, AltL):
                    return None
                else:
                    out.append(('one',))
            return sorted(out)
        a, b = shape(x), shape(y)
        if a is None or b is None:
            return None
        return True if a == b else None

    def _element_of(self, a: Any, b: Any) -> bool:
        """`a` is the value of an element expression over a (possibly filtered) repetition, `b` a list that holds the same
        element expression for EVERY element of the same base: a is certainly in b."""
        ctx = getattr(self, '_elem_ctx', {})
        if isinstance(a, TStr) and len(a.parts) == 1 and isinstance(a.parts[0], Hole) and not a.parts[0].transform:
            a = a.parts[0].sym
        if not (isinstance(a, Sym) and isinstance(b, TList) and len(b.items) == 1 and isinstance(b.items[0], RepL)):
            return False
        rb = b.items[0]
        if rb.src.filters or rb.src.order or len(rb.items) != 1:
            return False
        eb = rb.items[0]
        if isinstance(eb, TStr) and len(eb.parts) == 1 and isinstance(eb.parts[0], Hole) and not eb.parts[0].transform:
            eb = eb.parts[0].sym
        if not isinstance(eb, Sym):
            return False
        src_a = ctx.get(a.root)
        if src_a is None or repr(src_a.base) != repr(rb.src.base):
            return False
        return self.subst_val(eb, rb.src.var, src_a.var).key() == a.key()

    def cond_leaf(self, v: Any) -> Any:
        if isinstance(v, TStr):
            c = v.const()
            if c is not None:
                return c
            if len(v.parts) == 1 and isinstance(v.parts[0], Hole) and not v.parts[0].transform:
                return v.parts[0].sym
            return repr(v)
        if isinstance(v, TConst):
            return v.value
        if isinstance(v, (Sym, TEnum)):
            return v
        return repr(v)[:80]

    def is_none(self, v: Any) -> Cond:
        if v is TNone:
            return TRUE
        if isinstance(v, (tuple, TObj, TStr, TList, TBlock, TConst, TEnum)):
            return FALSE
        if isinstance(v, Sym):
            return Cond('is_none', (v,))
        if isinstance(v, TAlt):
            a, b = self.is_none(v.a), self.is_none(v.b)
            if a == b:
                return a
            if a == TRUE and b == FALSE:
                return v.cond
            if a == FALSE and b == TRUE:
                return c_not(v.cond)
            if a.op != 'opaque' and b.op != 'opaque':
                return self.c_or(self.c_and(v.cond, a), self.c_and(c_not(v.cond), b))
            return Cond('opaque', ('is_none of alternative',))
        return FALSE

    def truthy(self, v: Any) -> Cond:
        if v is TNone:
            return FALSE
        if isinstance(v, Cond):
            return v
        if isinstance(v, TConst):
            return TRUE if v.value else FALSE
        if isinstance(v, TEnum):
            return TRUE
        if isinstance(v, TStr):
            c = v.const()
            if c is not None:
                return TRUE if c else FALSE
            if any(isinstance(p, Lit) and p.text for p in v.parts):
                return TRUE
            if len(v.parts) == 1 and isinstance(v.parts[0], AltS):
                p = v.parts[0]
                a, b = self.truthy(p.a), self.truthy(p.b)
                if a == TRUE and b == FALSE:
                    return p.cond
                if a == FALSE and b == TRUE:
                    return c_not(p.cond)
            if len(v.parts) == 1 and isinstance(v.parts[0], RepS):
                return Cond('nonempty', (v.parts[0].src,))
            return Cond('truthy', (repr(v)[:60],))
        if isinstance(v, Sym):
            return Cond('truthy', (v,))
        if isinstance(v, (TList, TBlock)):
            return self.nonempty(v.items)
        if isinstance(v, TObj):
            if any(self.prog.lookup_method(v.cls, m) for m in ('__bool__', '__len__')):
                return Cond('truthy', (repr(v)[:40],))
            return TRUE
        if isinstance(v, TAlt):
            a, b = self.truthy(v.a), self.truthy(v.b)
            if a == b:
                return a
            if a == TRUE and b == FALSE:
                return v.cond
            if a == FALSE and b == TRUE:
                return c_not(v.cond)
            return Cond('or', (Cond('and', (v.cond, a)), Cond('and', (c_not(v.cond), b))))
        if isinstance(v, TFunc):
            return TRUE
        if isinstance(v, tuple) and v and v[0] in ('nsids', 'nsconcat', 'class', 'findresult'):
            return TRUE          # instances of classes without __bool__/__len__ are truthy
        return Cond('opaque', (type(v).__name__,))

    def nonempty(self, items: list) -> Cond:
        conds = []
        for it in items:
            if isinstance(it, RepL):
                inner = self.nonempty(it.items)
                if inner == FALSE:
                    continue
                c = Cond('nonempty', (it.src,))
                conds.append(c if inner == TRUE else Cond('and', (c, inner)))
            elif isinstance(it, AltL):
                a, b = self.nonempty(it.a), self.nonempty(it.b)
                if a == TRUE and b == TRUE:
                    return TRUE
                conds.append(Cond('or', (Cond('and', (it.cond, a)), Cond('and', (c_not(it.cond), b)))))
            elif it is TNone:
                continue
            else:
                return TRUE
        if not conds:
            return FALSE
        return conds[0] if len(conds) == 1 else Cond('or', tuple(conds))

    # -- expressions -------------------------------------------------------------------------------------------------------------
    def eval(self, e: ast.expr, env: Dict[str, Any], fn: FuncInfo, depth: int) -> Any:
        prog = self.prog
        if e is None:
            return TNone
        if isinstance(e, ast.Constant):
            if e.value is None:
                return TNone
            if isinstance(e.value, str):
                return lit(e.value)
            return TConst(e.value)
        if isinstance(e, ast.JoinedStr):
            out = TStr()
            for p in e.values:
                if isinstance(p, ast.Constant):
                    out = out + lit(str(p.value))
                elif isinstance(p, ast.FormattedValue):
                    out = out + self.to_str(self.eval(p.value, env, fn, depth), depth)
            return out
        if isinstance(e, ast.Name):
            if e.id in env:
                return env[e.id]
            sym = prog.resolve_name(fn.module, e.id)
            return self.from_symbol(sym, e.id, fn)
        if isinstance(e, ast.Attribute):
            sym = prog.resolve_expr_symbol(fn.module, e)
            if sym is not None and not (isinstance(e.value, ast.Name) and e.value.id in env):
                v = self.from_symbol(sym, e.attr, fn)
                if not isinstance(v, TOpaque):
                    return v
            base = self.eval(e.value, env, fn, depth)
            return self.getattr(base, e.attr, fn, depth)
        if isinstance(e, ast.IfExp):
            c = self.cond(e.test, env, fn, depth)
            if c == TRUE:
                return self.eval(e.body, env, fn, depth)
            if c == FALSE:
                return self.eval(e.orelse, env, fn, depth)
            a, b = self.eval(e.body, env, fn, depth), self.eval(e.orelse, env, fn, depth)
            return self._alt(c, a, b)
        if isinstance(e, (ast.List, ast.Tuple)):
            items = []
            for x in e.elts:
                v = self.eval(x, env, fn, depth)
                if isinstance(x, ast.Starred):
                    # `[a, *rest, b]`: the elements of rest, in place
                    if isinstance(v, TList):
                        items.extend(v.items)
                        continue
                    if isinstance(v, TAlt) and isinstance(v.a, TList) and isinstance(v.b, TList):
                        items.append(AltL(v.cond, list(v.a.items), list(v.b.items)))
                        continue
                    if isinstance(v, Sym) and strip_opt(v.typ)[0] == 'list':
                        var = self.new_sym('item', TypeEnv.elem_type(strip_opt(v.typ)))
                        items.append(RepL(Src(v, var, []), [TStr([Hole(var)])]))
                        continue
                items.append(v)
            return TList(items)
        if isinstance(e, (ast.ListComp, ast.GeneratorExp)):
            return self.comprehension(e, env, fn, depth)
        if isinstance(e, ast.BinOp):
            if isinstance(e.op, ast.Add):
                a, b = self.eval(e.left, env, fn, depth), self.eval(e.right, env, fn, depth)
                return self.add(a, b, fn, depth)
            if isinstance(e.op, ast.Mult):
                a, b = self.eval(e.left, env, fn, depth), self.eval(e.right, env, fn, depth)
                if isinstance(a, TStr) and a.is_const() and isinstance(b, TConst) and isinstance(b.value, int):
                    return lit(a.const() * b.value)
                if isinstance(b, TStr) and b.is_const() and isinstance(a, TConst) and isinstance(a.value, int):
                    return lit(b.const() * a.value)
            return self.opaque(f'operator {type(e.op).__name__}')
        if isinstance(e, ast.BoolOp) and len(e.values) == 2 and not any(
                isinstance(x, (ast.Compare, ast.BoolOp)) or (isinstance(x, ast.UnaryOp) and isinstance(x.op, ast.Not)) for x in e.values):
            # `a or b` / `a and b` as VALUES: the first operand decides which of the two the expression is
            a = self.eval(e.values[0], env, fn, depth)
            if not isinstance(a, (Cond, TOpaque)):
                t = self.truthy(a)
                if isinstance(e.op, ast.Or):
                    if t == TRUE:
                        return a
                    b = self.eval(e.values[1], env, fn, depth)
                    return b if t == FALSE else self._alt(t, a, b)
                if t == FALSE:
                    return a
                b = self.eval(e.values[1], env, fn, depth)
                return b if t == TRUE else self._alt(t, b, a)
        if isinstance(e, (ast.Compare, ast.BoolOp)) or (isinstance(e, ast.UnaryOp) and isinstance(e.op, ast.Not)):
            return self.cond(e, env, fn, depth)
        if isinstance(e, ast.Call):
            return self.call(e, env, fn, depth)
        if isinstance(e, ast.Subscript):
            return self.subscript(e, env, fn, depth)
        if isinstance(e, ast.Dict) and all(k is not None for k in e.keys):
            return ('dict', [(self.eval(k, env, fn, depth), self.eval(v, env, fn, depth)) for k, v in zip(e.keys, e.values)])
        if isinstance(e, ast.Lambda):
            return ('lambda', e, dict(env))
        if isinstance(e, ast.DictComp):
            return self.dictcomp(e, env, fn, depth)
        if isinstance(e, ast.Starred):
            return self.eval(e.value, env, fn, depth)
        return self.opaque(f'expression {type(e).__name__}')

    def class_attribute(self, cls: ClassInfo, attr: str, depth: int) -> Any:
        """`NAME = <expr>` in the body of the class or of the nearest base class that has one (a class-level constant)."""
        chain = [cls] + [a for a in self.prog.ancestors(cls) if isinstance(a, ClassInfo) and a is not cls]
        for c in chain:
            for st in c.node.body:
                tg = st.targets[0] if isinstance(st, ast.Assign) and len(st.targets) == 1 else \
                    st.target if isinstance(st, ast.AnnAssign) and st.value is not None else None
                if isinstance(tg, ast.Name) and tg.id == attr:
                    ctxfn = next(iter(c.methods.values()), None) or next(iter(c.module.functions.values()), None)
                    if ctxfn is None:
                        return None
                    # the class body is a scope of its own: its functions are plain names there
                    scope = {nm: TFunc(m_, {}) for nm, m_ in c.methods.items()}
                    return self.eval(st.value, scope, ctxfn, depth + 1)
        return None

    def from_symbol(self, sym: Any, name: str, fn: FuncInfo) -> Any:
        if isinstance(sym, tuple) and sym[0] == 'const':
            node, mod = sym[1], sym[2]
            if isinstance(node, ast.Constant):
                if node.value is None:
                    return TNone
                return lit(node.value) if isinstance(node.value, str) else TConst(node.value)
            ctxfn = next(iter(mod.functions.values()), None)
            if ctxfn is not None and isinstance(node, (ast.JoinedStr, ast.BinOp, ast.Name, ast.Attribute, ast.Dict, ast.Call,
                                                       ast.Tuple, ast.List)):
                key = (mod.name, name)
                if key not in self._const_cache:
                    self._const_cache[key] = self.eval(node, {}, ctxfn, 1)
                return self._const_cache[key]
            return self.opaque(f'module constant {name}')
        if isinstance(sym, tuple) and sym[0] == 'enum_member':
            return TEnum(sym[1], sym[2])
        if isinstance(sym, ClassInfo):
            return ('class', sym)
        if isinstance(sym, FuncInfo):
            return TFunc(sym, {})
        if isinstance(sym, Module):
            return ('module', sym)
        if isinstance(sym, tuple) and sym[0] == 'ext':
            return ('ext', sym[1])
        if sym is None:
            return ('builtin', name)
        return self.opaque(f'symbol {name}')

    def getattr(self, base: Any, attr: str, fn: FuncInfo, depth: int) -> Any:
        prog = self.prog
        if isinstance(base, TAlt):
            return self._alt(base.cond, self.getattr(base.a, attr, fn, depth), self.getattr(base.b, attr, fn, depth))
        if isinstance(base, Sym):
            t = strip_opt(base.typ)
            ts = [strip_opt(x) for x in t[1]] if t[0] == 'union' else [t]
            cls = next((prog.classes[x[1]] for x in ts if x[0] == 'cls' and x[1] in prog.classes), None)
            if cls is not None:
                m = prog.lookup_method(cls, attr)
                if m is not None and m.is_property:
                    return self.call_function(m, [], {}, depth + 1, self_val=base)
                if m is not None:
                    return ('bound', m, base)
                if cls.is_enum and attr == 'value':
                    return base.attr('value', ('str',))
                ft = prog.field_type(cls, attr)
                if ft is None and attr not in prog.class_fields(cls):
                    cv = self.class_attribute(cls, attr, depth)     # a class-level constant (dispatch table ...)
                    if cv is not None:
                        return cv
                return base.attr(attr, ft if ft is not None else ANY)
            return base.attr(attr, ANY)
        if isinstance(base, TObj):
            if attr in base.fields:
                return base.fields[attr]
            blk = base.fields.get('__block__')
            if attr in ('lines', '_lines') and isinstance(blk, TBlock) and not blk.comment and \
                    prog.is_subclass(base.cls.fq, 'dznpy.text_gen.TextBlock'):
                # the line buffer of a natively modelled block: constant items are split into physical lines
                flat = self.block_items(blk, depth)
                if all(isinstance(x, TStr) for x in flat):
                    out_lines = []
                    for x in flat:
                        out_lines.extend(self.split_lines(x))
                    return TList(out_lines)
                return TList(flat)
            m = prog.lookup_method(base.cls, attr)
            if m is not None and m.is_property:
                return self.call_function(m, [], {}, depth + 1, self_val=base)
            if m is not None:
                return ('bound', m, base)
            if '_' + attr in base.fields:
                return base.fields['_' + attr]
            cv = self.class_attribute(base.cls, attr, depth)
            if cv is not None:
                return cv
            return self.opaque(f'attribute {attr} of {base.cls.name}')
        if isinstance(base, TEnum):
            if attr == 'value':
                node = base.cls.enum_members.get(base.member)
                if isinstance(node, ast.Constant):
                    return TNone if node.value is None else lit(str(node.value))
            if attr == 'name':
                return lit(base.member)
            m = self.prog.lookup_method(base.cls, attr)
            if m is not None and m.is_property:
                return self.call_function(m, [], {}, depth + 1, self_val=base)
            if m is not None:
                return ('bound', m, base)
            return self.opaque(f'enum attribute {attr}')
        if isinstance(base, tuple) and base[0] == 'class':
            c: ClassInfo = base[1]
            if c.is_enum and attr in c.enum_members:
                return TEnum(c, attr)
            m = prog.lookup_method(c, attr)
            if m is not None and getattr(m, 'is_classmethod', False):
                return ('bound', m, base)
            if m is not None:
                return TFunc(m, {})
            cv = self.class_attribute(c, attr, depth)
            if cv is not None:
                return cv
        if isinstance(base, tuple) and base[0] == 'module':
            return self.from_symbol(prog.resolve_name(base[1], attr), attr, fn)
        if isinstance(base, tuple) and base and base[0] == 'ext':
            return ('ext', f'{base[1]}.{attr}')          # attribute of an external module (re.sub, os.path ...)
        if isinstance(base, tuple) and base and base[0] == 'nsids' and attr == 'items':
            return TList([lit(x) for x in base[1]])
        if isinstance(base, tuple) and base and base[0] == 'nsconcat' and attr == 'items':
            return self.opaque('items of a symbolic namespace concatenation')
        if isinstance(base, TBlock) and attr in ('lines', '_lines'):
            flat = self.block_items(base, depth)
            if all(isinstance(x, TStr) for x in flat):
                out_lines = []
                for x in flat:
                    out_lines.extend(self.split_lines(x))
                return TList(out_lines)
            return TList(base.items)
        if isinstance(base, (TStr, TList, TBlock)):
            return ('method', base, attr)
        if isinstance(base, tuple) and base and base[0] == 'strtemplate':
            return ('method', base, attr)
        if base is TNone:
            return self.opaque(f'attribute {attr} of None')
        return self.opaque(f'attribute {attr} of {type(base).__name__}')

    @staticmethod
    def split_lines(s: TStr) -> List[TStr]:
        """Physical lines of a text: literal parts are split at '\n', other parts stay inside their line."""
        lines: List[TStr] = []
        cur = TStr()
        for p_ in s.parts:
            if isinstance(p_, Lit):
                chunks = p_.text.split('\n')
                for i, ch in enumerate(chunks):
                    if i > 0:
                        lines.append(cur)
                        cur = TStr()
                    cur = cur + lit(ch)
            else:
                cur = cur + TStr([p_])
        if cur.parts or not lines:
            lines.append(cur)
        return lines

    @staticmethod
    def _cap_idiom(s: TStr) -> TStr:
        """X[0].upper() + X[1:]  ->  {X:cap}"""
        parts = s.parts
        out = []
        i = 0
        while i < len(parts):
            p = parts[i]
            if i + 1 < len(parts) and isinstance(p, Hole) and isinstance(parts[i + 1], Hole) and \
                    p.transform == '.upper()' and p.sym.path and p.sym.path[-1] == '[0]' and \
                    not parts[i + 1].transform and parts[i + 1].sym.path and parts[i + 1].sym.path[-1] == '[1:]' and \
                    p.sym.root == parts[i + 1].sym.root and p.sym.path[:-1] == parts[i + 1].sym.path[:-1]:
                out.append(Hole(Sym(p.sym.root, p.sym.path[:-1], ('str',)), 'cap'))
                i += 2
                continue
            out.append(p)
            i += 1
        return TStr(out)

    def add(self, a: Any, b: Any, fn: FuncInfo, depth: int) -> Any:
        if isinstance(a, tuple) and a and a[0] in ('len', 'num') and isinstance(b, tuple) and b and b[0] in ('len', 'num'):
            return ('num', 'add')
        if isinstance(a, TStr) or isinstance(b, TStr) or (
                isinstance(a, Sym) and strip_opt(a.typ)[0] == 'str') or (isinstance(b, Sym) and strip_opt(b.typ)[0] == 'str'):
            return self._cap_idiom(self.to_str(a, depth) + self.to_str(b, depth))
        if isinstance(a, TList) and isinstance(b, TList):
            return TList(a.items + b.items)

        def as_items(x):
            # a list-typed symbolic value spliced into a literal list: every element of it, in order
            if isinstance(x, TList):
                return x.items
            if isinstance(x, Sym) and strip_opt(x.typ)[0] == 'list':
                var = self.new_sym('item', TypeEnv.elem_type(strip_opt(x.typ)))
                return [RepL(Src(x, var, []), [TStr([Hole(var)])])]
            if isinstance(x, TAlt):
                ia, ib = as_items(x.a), as_items(x.b)
                if ia is not None and ib is not None:
                    return [AltL(x.cond, ia, ib)]
            return None
        if (isinstance(a, TList) or isinstance(b, TList) or (isinstance(a, TAlt) and isinstance(b, TAlt))) and \
                as_items(a) is not None and as_items(b) is not None:
            return TList(as_items(a) + as_items(b))
        if isinstance(a, TBlock):
            return TBlock(a.items + self.block_items(b, depth))
        if isinstance(b, TAlt) and not isinstance(a, TAlt) and isinstance(a, (tuple, Sym, TObj)):
            return self._alt(b.cond, self.add(a, b.a, fn, depth), self.add(a, b.b, fn, depth))
        # NamespaceIds + NamespaceIds and other package __add__
        for x in (a,):
            cls = None
            if isinstance(x, TObj):
                cls = x.cls
            elif isinstance(x, Sym) and strip_opt(x.typ)[0] == 'cls':
                cls = self.prog.classes.get(strip_opt(x.typ)[1])
            if cls is not None and cls.name == 'NamespaceIds':
                return ('nsconcat', a, b)
        if isinstance(a, tuple) and a and a[0] == 'nsids' and isinstance(b, tuple) and b and b[0] == 'nsids':
            return ('nsids', a[1] + b[1])
        if isinstance(a, tuple) and a and a[0] == 'nsids':
            return ('nsconcat', a, b)
            if cls is not None:
                m = self.prog.lookup_method(cls, '__add__')
                if m is not None:
                    return self.call_function(m, [b], {}, depth + 1, self_val=a)
        if isinstance(a, tuple) and a and a[0] == 'nsconcat':
            return ('nsconcat', a, b)
        if isinstance(a, TBlock) or isinstance(b, TBlock):
            return TBlock(self.block_items(a, depth) + self.block_items(b, depth))
        return self.opaque(f'addition of {type(a).__name__} and {type(b).__name__}')

    def comprehension(self, e: Union[ast.ListComp, ast.GeneratorExp], env: Dict[str, Any], fn: FuncInfo, depth: int) -> Any:
        if len(e.generators) > 1:
            # [elt for a in A for b in B]  ==  the concatenation of [[elt for b in B] for a in A]
            inner = ast.ListComp(elt=e.elt, generators=list(e.generators[1:]))
            outer = ast.ListComp(elt=inner, generators=[e.generators[0]])
            ast.copy_location(inner, e)
            ast.copy_location(outer, e)
            res = self.comprehension(outer, env, fn, depth)
            if not isinstance(res, TList):
                return res
            flat = []
            for x in res.items:
                if isinstance(x, TList):
                    flat.extend(x.items)
                elif isinstance(x, RepL) and all(isinstance(y, TList) for y in x.items):
                    flat.append(RepL(x.src, [z for y in x.items for z in y.items]))
                elif isinstance(x, AltL) and all(isinstance(y, TList) for y in x.a + x.b):
                    flat.append(AltL(x.cond, [z for y in x.a for z in y.items], [z for y in x.b for z in y.items]))
                else:
                    return self.opaque('nested comprehension')
            return TList(flat)
        g = e.generators[0]
        it = self.eval(g.iter, env, fn, depth)
        if isinstance(it, TList):
            # a list value (literal items, repetitions, alternatives): the comprehension maps / filters it element-wise,
            # a repetition stays a repetition over the same source (composition of maps)
            def one(x, env_, src_=None):
                env2 = dict(env_)
                self._assign(g.target, x, env2, fn, depth)
                if src_ is not None and isinstance(x, Sym):
                    if not hasattr(self, '_elem_ctx'):
                        self._elem_ctx = {}
                    self._elem_ctx[x.root] = src_
                c = TRUE
                if g.ifs:
                    c = self.cond(ast.BoolOp(op=ast.And(), values=list(g.ifs)) if len(g.ifs) > 1 else g.ifs[0], env2, fn, depth)
                return c, self.eval(e.elt, env2, fn, depth)

            def map_items(items):
                out = []
                for x in items:
                    if isinstance(x, RepL):
                        if len(x.items) == 1 and not isinstance(x.items[0], (RepL, AltL)) and g.ifs:
                            c, v = one(x.items[0], env, x.src)
                            if c == FALSE:
                                continue
                            src2 = Src(x.src.base, x.src.var, list(x.src.filters) + ([] if c == TRUE else [c]), x.src.order)
                            out.append(RepL(src2, [v]))
                        else:
                            out.append(RepL(x.src, map_items(x.items)))
                    elif isinstance(x, AltL):
                        out.append(AltL(x.cond, map_items(x.a), map_items(x.b)))
                    else:
                        c, v = one(x, env)
                        if c == TRUE:
                            out.append(v)
                        elif c != FALSE:
                            out.append(AltL(c, [v], []))
                return out
            return TList(map_items(it.items))
        src = self.make_src(it, g.target, fn)
        if src is None:
            return self.opaque(f'comprehension over {type(it).__name__}')
        env2 = dict(env)
        if isinstance(g.target, ast.Name):
            env2[g.target.id] = src.var
        for c in g.ifs:
            src.filters.append(self.cond(c, env2, fn, depth))
        elt = self.eval(e.elt, env2, fn, depth)
        return TList([RepL(src, [elt])])

    def dictcomp(self, e: ast.DictComp, env: Dict[str, Any], fn: FuncInfo, depth: int) -> Any:
        """{key: list(group) for key, group in groupby(seq, key=f)}: for every key only the LAST run of consecutive
        elements with that key survives (later runs overwrite earlier ones)."""
        if len(e.generators) == 1 and not e.generators[0].ifs:
            g = e.generators[0]
            it = self.eval(g.iter, env, fn, depth)
            if isinstance(it, tuple) and it and it[0] == 'class' and it[1].is_enum and isinstance(g.target, ast.Name):
                # {m: <value> for m in <Enum class>}: one entry per member, in definition order
                pairs = []
                for mem in it[1].enum_members:
                    env2 = dict(env)
                    env2[g.target.id] = TEnum(it[1], mem)
                    pairs.append((self.eval(e.key, env2, fn, depth), self.eval(e.value, env2, fn, depth)))
                return ('dict', pairs)
            if isinstance(it, tuple) and it and it[0] == 'groupby' and isinstance(g.target, ast.Tuple) and len(g.target.elts) == 2 \
                    and all(isinstance(x, ast.Name) for x in g.target.elts):
                kn, gn = g.target.elts[0].id, g.target.elts[1].id
                val = e.value
                if isinstance(val, ast.Call) and isinstance(val.func, ast.Name) and val.func.id in ('list', 'tuple') and len(val.args) == 1:
                    val = val.args[0]
                if isinstance(e.key, ast.Name) and e.key.id == kn and isinstance(val, ast.Name) and val.id == gn:
                    return ('groupdict', it[1], it[2])
        return self.opaque('expression DictComp')

    def group_lookup(self, gd: tuple, k: Any, fn: FuncInfo, depth: int) -> Any:
        _tag, seq, key = gd
        if key == ('builtin', 'type'):
            src = self.make_src(seq, ast.Name(id='item', ctx=ast.Store()), fn)
            if src is None or not (isinstance(k, tuple) and k and k[0] == 'class'):
                return self.opaque('groupby by type over ' + type(seq).__name__)
            src.filters.append(Cond('isinstance', (src.var, k[1].name)))
            src.order = 'partial:only the last run of consecutive elements with that key' + ('+' + src.order if src.order else '')
            return TList([RepL(src, [src.var])])
        lam: ast.Lambda = key[1]
        params = [a.arg for a in lam.args.args]
        if len(params) != 1:
            return self.opaque('groupby key with several parameters')
        src = self.make_src(seq, ast.Name(id=params[0], ctx=ast.Store()), fn)
        if src is None:
            return self.opaque('groupby over ' + type(seq).__name__)
        env2 = dict(key[2])
        env2[params[0]] = src.var
        env2['__group_key__'] = k
        cmp = ast.Compare(left=lam.body, ops=[ast.Eq()], comparators=[ast.Name(id='__group_key__', ctx=ast.Load())])
        src.filters.append(self.cond(cmp, env2, fn, depth))
        src.order = 'partial:only the last run of consecutive elements with that key' + ('+' + src.order if src.order else '')
        return TList([RepL(src, [src.var])])

    def subscript(self, e: ast.Subscript, env: Dict[str, Any], fn: FuncInfo, depth: int) -> Any:
        base = self.eval(e.value, env, fn, depth)
        if isinstance(base, tuple) and base and base[0] == 'dict':
            k = self.eval(e.slice, env, fn, depth)
            r = self.dict_lookup(base[1], k, None)
            if r is not None:
                return r
            return self.opaque('lookup in a constant table with a key that is not a constant')
        if isinstance(base, TList) and isinstance(e.slice, ast.Constant) and isinstance(e.slice.value, int):
            i = e.slice.value
            if all(not isinstance(x, (RepL, AltL)) for x in base.items) and -len(base.items) <= i < len(base.items):
                return base.items[i]
        if isinstance(base, TList) and all(not isinstance(x, (RepL, AltL)) for x in base.items):
            try:
                if isinstance(e.slice, ast.Slice):
                    sl = slice(*(None if x is None else ast.literal_eval(ast.unparse(x)) for x in (e.slice.lower, e.slice.upper, e.slice.step)))
                    return TList(list(base.items[sl]))
                i = ast.literal_eval(ast.unparse(e.slice))          # also `-1`
                if isinstance(i, int) and -len(base.items) <= i < len(base.items):
                    return base.items[i]
            except (ValueError, SyntaxError, TypeError):
                pass
        if isinstance(base, TList) and isinstance(e.slice, ast.Constant) and isinstance(e.slice.value, int) and \
                len(base.items) == 1 and isinstance(base.items[0], RepL) and len(base.items[0].items) == 1 and \
                isinstance(base.items[0].items[0], Sym):
            # one fixed element of a repetition: some element of the collection, not the loop variable of any loop
            v = base.items[0].items[0]
            return self.new_sym(f'{v.root.split("#")[0]}_at_{e.slice.value}', v.typ)
        if isinstance(base, TList) and isinstance(e.slice, ast.Slice) and len(base.items) == 1 and isinstance(base.items[0], RepL):
            # a slice of a repetition: a partial view of the underlying collection
            r = base.items[0]
            src = Src(r.src.base, r.src.var, list(r.src.filters),
                      f'partial:slice [{ast.unparse(e.slice)}]' + ('+' + r.src.order if r.src.order else ''))
            return TList([RepL(src, r.items)])
        if isinstance(base, Sym):
            if isinstance(e.slice, ast.Slice):
                return Sym(base.root, base.path + (f'[{ast.unparse(e.slice)}]',), base.typ)
            return Sym(base.root, base.path + (f'[{ast.unparse(e.slice)}]',), TypeEnv.elem_type(base.typ))
        if isinstance(base, TStr) and base.const() is not None:
            try:
                idx = ast.literal_eval(ast.unparse(e.slice)) if not isinstance(e.slice, ast.Slice) else slice(
                    *(None if x is None else ast.literal_eval(ast.unparse(x)) for x in (e.slice.lower, e.slice.upper, e.slice.step)))
                return lit(base.const()[idx])
            except (ValueError, IndexError, SyntaxError, TypeError):
                pass
        if isinstance(base, TStr) and len(base.parts) == 1 and isinstance(base.parts[0], Hole):
            h = base.parts[0]
            return TStr([Hole(h.sym, (h.transform + f'[{ast.unparse(e.slice)}]'))])
        return self.opaque(f'subscript of {type(base).__name__}')

    # -- strings ---------------------------------------------------------------------------------------------------------------
    def to_str(self, v: Any, depth: int) -> TStr:
        if isinstance(v, TStr):
            return v
        if v is TNone:
            return lit('None')
        if isinstance(v, TConst):
            return lit(str(v.value))
        if isinstance(v, TEnum):
            return lit(f'{v.cls.name}.{v.member}')
        if isinstance(v, Sym):
            t = strip_opt(v.typ)
            if t[0] == 'cls' and t[1] in self.prog.classes:
                cls = self.prog.classes[t[1]]
                if cls.name in self.atomic_classes or self.prog.is_subclass(cls.fq, 'dznpy.text_gen.TextBlock'):
                    return TStr([Hole(v)])
                if cls.name == 'NamespaceIds':
                    return TStr([FqnS(v, 'dotted')])
                m = self.prog.lookup_method(cls, '__str__')
                if m is not None and depth < self.MAX_DEPTH:
                    return self.to_str(self.call_function(m, [], {}, depth + 1, self_val=v), depth + 1)
            return TStr([Hole(v)])
        if isinstance(v, TBlock):
            return self.block_to_str(v, depth)
        if isinstance(v, TAlt):
            return TStr([AltS(v.cond, self.to_str(v.a, depth), self.to_str(v.b, depth))])
        if isinstance(v, TObj):
            if v.cls.name == 'Fqn':
                root = v.fields.get('prefix_root_ns', TConst(False))
                return TStr([FqnS(v.fields.get('ns_ids'), self.truthy(root))])
            m = self.prog.lookup_method(v.cls, '__str__')
            if m is not None and depth < self.MAX_DEPTH:
                r = self.call_function(m, [], {}, depth + 1, self_val=v)
                return self.to_str(r, depth + 1)
            return TStr([OpaqueS(f'str({v.cls.name})')])
        if isinstance(v, TList):
            return TStr([OpaqueS('str(list)')])
        if isinstance(v, TRaise):
            return TStr([OpaqueS(f'raises {v.what}')])
        if isinstance(v, tuple) and v and v[0] == 'nsids':
            return lit('.'.join(v[1]))
        if isinstance(v, tuple) and v and v[0] == 'nsconcat':
            return TStr([FqnS(v, 'dotted')])
        if isinstance(v, TOpaque):
            return TStr([OpaqueS(v.reason)])
        return TStr([OpaqueS(f'str({type(v).__name__})')])

    def block_to_str(self, b: TBlock, depth: int) -> TStr:
        out = TStr()
        for it in b.items:
            out = out + self.line_to_str(it, depth)
        if b.comment:
            return TStr([CommentS(out)])
        return out

    def line_to_str(self, it: Any, depth: int) -> TStr:
        if isinstance(it, RepL):
            body = TStr()
            for x in it.items:
                body = body + self.line_to_str(x, depth)
            return TStr([RepS(TStr(), body, it.src)])
        if isinstance(it, AltL):
            a, b = TStr(), TStr()
            for x in it.a:
                a = a + self.line_to_str(x, depth)
            for x in it.b:
                b = b + self.line_to_str(x, depth)
            return TStr([AltS(it.cond, a, b)])
        if it is TNone:
            return TStr()
        if isinstance(it, TBlock):
            return self.block_to_str(it, depth)
        if isinstance(it, TAlt):
            return TStr([AltS(it.cond, self.line_to_str(it.a, depth), self.line_to_str(it.b, depth))])
        if isinstance(it, TList):
            out = TStr()
            for x in it.items:
                out = out + self.line_to_str(x, depth)
            return out
        s = self.to_str(it, depth)
        c = s.const()
        if c is not None and c.endswith('\n'):
            return s
        return s + lit('\n')

    # -- lists / blocks ------------------------------------------------------------------------------------------------------------
    def as_items(self, v: Any) -> list:
        if isinstance(v, TList):
            return list(v.items)
        if isinstance(v, TBlock):
            return list(v.items)
        if v is TNone:
            return []
        return [v]

    def block_items(self, content: Any, depth: int) -> list:
        """flatten_to_strlist semantics on abstract content: lists are flattened, None vanishes, TextBlocks are
        spliced, everything else becomes one (possibly multi-line) text item."""
        if content is TNone:
            return []
        if isinstance(content, (RepL, AltL)):
            return self.block_items(TList([content]), depth)
        if isinstance(content, TList):
            out = []
            for x in content.items:
                if isinstance(x, RepL):
                    inner = []
                    for y in x.items:
                        inner.extend(self.block_items(y, depth))
                    out.append(RepL(x.src, inner))
                elif isinstance(x, AltL):
                    a, b = [], []
                    for y in x.a:
                        a.extend(self.block_items(y, depth))
                    for y in x.b:
                        b.extend(self.block_items(y, depth))
                    out.append(AltL(x.cond, a, b))
                else:
                    out.extend(self.block_items(x, depth))
            return out
        if isinstance(content, TBlock):
            return [content] if content.comment else list(content.items)
        if isinstance(content, TAlt):
            return [AltL(content.cond, self.block_items(content.a, depth), self.block_items(content.b, depth))]
        if isinstance(content, TStr):
            return [content]
        if isinstance(content, Sym):
            t = strip_opt(content.typ)
            if t[0] == 'list':
                var = self.new_sym('item', TypeEnv.elem_type(t))
                return [RepL(Src(content, var, []), [TStr([Hole(var)])])]
            return [TStr([Hole(content)])]
        if isinstance(content, TObj):
            # objects are stringified by the text layer (Comment / TextBlock subclasses keep their identity)
            if self.prog.is_subclass(content.cls.fq, 'dznpy.text_gen.TextBlock'):
                blk = content.fields.get('__block__')
                if isinstance(blk, TBlock):
                    return [blk] if blk.comment else list(blk.items)
            return [self.to_str(content, depth)]
        return [self.to_str(content, depth)]

    # -- calls --------------------------------------------------------------------------------------------------------------------------
    def call(self, e: ast.Call, env: Dict[str, Any], fn: FuncInfo, depth: int) -> Any:
        prog = self.prog
        f = e.func
        # super().method(...): the next implementation above the class this code is written in, on the same object
        if isinstance(f, ast.Attribute) and isinstance(f.value, ast.Call) and isinstance(f.value.func, ast.Name) and \
                f.value.func.id == 'super' and not f.value.args and fn.cls is not None and 'self' in env:
            for anc in prog.ancestors(fn.cls)[1:]:
                if isinstance(anc, ClassInfo) and f.attr in anc.methods:
                    args = [self.eval(a, env, fn, depth) for a in e.args if not isinstance(a, ast.Starred)]
                    if len(args) != len(e.args):
                        return self.opaque('star-arguments in a super() call')
                    kwargs = {k.arg: self.eval(k.value, env, fn, depth) for k in e.keywords if k.arg}
                    return self.call_function(anc.methods[f.attr], args, kwargs, depth + 1, self_val=env['self'])
            return TNone        # object.__init__ and the like
        # method calls on abstract containers / strings
        if isinstance(f, ast.Attribute):
            recv = self.eval(f.value, env, fn, depth)
            if isinstance(recv, tuple) and recv and recv[0] == 'findresult':
                if f.attr == 'get_single_instance':
                    hint = self.eval(e.args[0], env, fn, depth) if e.args else next(
                        (self.eval(k.value, env, fn, depth) for k in e.keywords if k.arg == 'ast_typehint'), None)
                    typ = t_cls(hint[1].fq) if isinstance(hint, tuple) and hint and hint[0] == 'class' else ANY
                    sym = self.new_sym('decl', typ)
                    self.lookups[sym.root] = (recv[1], recv[2], recv[3], typ)
                    return sym
                if f.attr == 'items':
                    return self.new_sym('found_items', ANY)
                return self.opaque(f'FindResult.{f.attr}')
            r = self.method_call(recv, f.attr, e, env, fn, depth)
            if r is not NotImplemented:
                return r
            callee = self.getattr(recv, f.attr, fn, depth)
        else:
            callee = self.eval(f, env, fn, depth)
        args = []
        for a in e.args:
            if isinstance(a, ast.Starred):
                # `f(x, *rest)`: a list of known length is spread over the positions
                sv = self.eval(a.value, env, fn, depth)
                if isinstance(sv, TList) and not any(isinstance(i_, (RepL, AltL)) for i_ in sv.items):
                    args.extend(sv.items)
                else:
                    return self.opaque(f'star-argument `{ast.unparse(a)[:40]}` of unknown length')
            else:
                args.append(self.eval(a, env, fn, depth))
        kwargs = {k.arg: self.eval(k.value, env, fn, depth) for k in e.keywords if k.arg}
        return self.apply(callee, args, kwargs, e, env, fn, depth)

    def apply(self, callee: Any, args: list, kwargs: dict, e: ast.Call, env, fn, depth) -> Any:
        prog = self.prog
        f = e.func
        if isinstance(callee, TAlt):
            # a callable chosen by a condition (e.g. taken out of a table keyed by an enum): either one is called
            a = self.apply(callee.a, args, kwargs, e, env, fn, depth) if callee.a is not TNone else TRaise('call of None')
            b = self.apply(callee.b, args, kwargs, e, env, fn, depth) if callee.b is not TNone else TRaise('call of None')
            if isinstance(a, TRaise):
                return b
            if isinstance(b, TRaise):
                return a
            return self._alt(callee.cond, a, b)
        if isinstance(callee, TFunc):
            native = self.native(callee.fn, args, kwargs, depth)
            if native is not NotImplemented:
                return native
            return self.call_function(callee.fn, args, kwargs, depth + 1, closure=callee.env)
        if isinstance(callee, tuple) and callee[0] == 'bound':
            return self.call_function(callee[1], args, kwargs, depth + 1, self_val=callee[2])
        if isinstance(callee, tuple) and callee[0] == 'lambda' and len(callee) == 3:
            lam: ast.Lambda = callee[1]
            la = lam.args
            if la.vararg or la.kwarg or la.kwonlyargs or kwargs or len(args) > len(la.posonlyargs) + len(la.args):
                return self.opaque(f'call of a lambda with an unmodelled signature `{ast.unparse(lam)[:40]}`')
            lenv = dict(callee[2])
            names = [p_.arg for p_ in list(la.posonlyargs) + list(la.args)]
            dflt = dict(zip(names[len(names) - len(la.defaults):], la.defaults))
            for i_, nm in enumerate(names):
                if i_ < len(args):
                    lenv[nm] = args[i_]
                elif nm in dflt:
                    lenv[nm] = self.eval(dflt[nm], dict(callee[2]), fn, depth + 1)
                else:
                    return self.opaque(f'missing argument {nm} of a lambda')
            return self.eval(lam.body, lenv, fn, depth + 1)
        if isinstance(callee, tuple) and callee[0] == 'class':
            return self.construct(callee[1], args, kwargs, depth)
        if isinstance(callee, tuple) and callee[0] == 'builtin':
            return self.builtin(callee[1], args, kwargs, e, env, fn, depth)
        if isinstance(callee, tuple) and callee[0] == 'ext':
            if callee[1] in ('copy.deepcopy', 'copy.copy') and args:
                return args[0]
            if callee[1] in ('re.sub', 're.escape') and all(isinstance(a, TStr) and a.is_const() for a in args) and not kwargs \
                    and len(args) == (3 if callee[1] == 're.sub' else 1):
                # constant folding of a pure library function over constant strings
                import re as _re
                try:
                    return lit(getattr(_re, callee[1].split('.')[1])(*[a.const() for a in args]))
                except _re.error:
                    return self.opaque(f'{callee[1]} with an invalid pattern')
            if callee[1] == 'dataclasses.asdict' and len(args) == 1 and isinstance(args[0], TObj):
                names_ = list(self.prog.class_fields(args[0].cls))
                if all(n_ in args[0].fields for n_ in names_):
                    return ('dict', [(lit(n_), args[0].fields[n_]) for n_ in names_])
            if callee[1] == 'string.Template' and len(args) == 1 and isinstance(args[0], TStr) and args[0].is_const():
                return ('strtemplate', args[0].const())
            if callee[1] == 'itertools.groupby' and args:
                key = args[1] if len(args) > 1 else kwargs.get('key')
                if isinstance(key, tuple) and key and (key[0] == 'lambda' or key == ('builtin', 'type')) and \
                        isinstance(args[0], (Sym, TList)):
                    # groups of CONSECUTIVE elements with equal key
                    return ('groupby', args[0], key)
            return self.opaque(f'external call {callee[1]}')
        return self.opaque(f'call of {type(callee).__name__} `{ast.unparse(f)[:40]}`')

    def builtin(self, name: str, args: list, kwargs: dict, e: ast.Call, env, fn, depth) -> Any:
        if name == 'str' and args:
            return self.to_str(args[0], depth)
        if name in ('any', 'all') and args:
            v = args[0]
            if isinstance(v, TList) and len(v.items) == 1 and isinstance(v.items[0], RepL):
                rep = v.items[0]
                inner = rep.items[0] if rep.items else TRUE
                c = inner if isinstance(inner, Cond) else self.truthy(inner)
                return Cond('exists' if name == 'any' else 'forall', (rep.src, c))
            return Cond('opaque', (name,))
        if name == 'len' and args:
            return ('len', args[0])
        if name == 'bool' and len(args) == 1 and not kwargs:
            return self.truthy(args[0])
        if name == 'callable' and len(args) == 1 and not kwargs:
            v = args[0]
            if isinstance(v, TFunc) or (isinstance(v, tuple) and v and v[0] in ('bound', 'lambda', 'class')):
                return TRUE
            if isinstance(v, (TStr, TBlock, TList, TConst, TEnum)) or v is TNone or \
                    (isinstance(v, TObj) and self.prog.lookup_method(v.cls, '__call__') is None):
                return FALSE
            return Cond('opaque', ('callable',))
        if name in ('sum', 'min', 'max', 'abs') and args:
            return ('num', name)            # a number the templates do not depend on textually (only tested in conditions)
        if name in ('list', 'tuple') and args:
            if isinstance(args[0], Sym) and strip_opt(args[0].typ)[0] in ('list', 'set'):
                # a copy of a symbolic collection: the repetition over its elements
                var = self.new_sym('x', TypeEnv.elem_type(args[0].typ))
                return TList([RepL(Src(args[0], var, []), [var])])
            return args[0] if isinstance(args[0], TList) else TList(self.as_items(args[0]))
        if name == 'isinstance':
            if len(args) == 2 and not isinstance(args[0], (Sym, TAlt)):
                # a value whose class is known: decided by the class (tuples of classes: any of them)
                def cls_targets(t_):
                    if isinstance(t_, tuple) and t_ and t_[0] == 'class':
                        return [t_[1].fq]
                    if isinstance(t_, tuple) and t_ and t_[0] == 'builtin':
                        return ['builtin:' + str(t_[1])]
                    if isinstance(t_, TList) and all(not isinstance(x_, (RepL, AltL)) for x_ in t_.items):
                        out_ = []
                        for x_ in t_.items:
                            r_ = cls_targets(x_)
                            if r_ is None:
                                return None
                            out_ += r_
                        return out_
                    return None
                tg = cls_targets(args[1])
                v0 = args[0]
                if tg is not None:
                    if isinstance(v0, TObj):
                        return TRUE if any(t_ == v0.cls.fq or (not t_.startswith('builtin:') and self.prog.is_subclass(v0.cls.fq, t_))
                                           for t_ in tg) else FALSE
                    if isinstance(v0, TStr):
                        return TRUE if 'builtin:str' in tg else FALSE
                    if v0 is TNone:
                        return FALSE
                    if isinstance(v0, (TList, TBlock)) and isinstance(v0, TList):
                        return TRUE if 'builtin:list' in tg or 'builtin:tuple' in tg else FALSE
            if len(args) == 2 and isinstance(args[0], Sym) and strip_opt(args[0].typ)[0] == 'cls' and strip_opt(args[0].typ)[1] in self.prog.classes:
                # a symbolic value annotated with a class of the package, tested against one class or a tuple of classes
                def targets_(t_):
                    if isinstance(t_, tuple) and t_ and t_[0] == 'class':
                        return [t_[1].fq]
                    if isinstance(t_, TList) and all(isinstance(x_, tuple) and x_ and x_[0] == 'class' for x_ in t_.items):
                        return [x_[1].fq for x_ in t_.items]
                    return None
                tg_ = targets_(args[1])
                own_ = strip_opt(args[0].typ)[1]
                if tg_ is not None:
                    if any(own_ == t_ or self.prog.is_subclass(own_, t_) for t_ in tg_):
                        return TRUE if args[0].typ[0] != 'opt' else c_not(self.is_none(args[0]))
                    if not any(self.prog.is_subclass(t_, own_) for t_ in tg_):
                        return FALSE        # an unrelated class: neither an instance of the annotated class nor None is one
            if len(args) == 2 and isinstance(args[0], Sym) and isinstance(args[1], tuple) and args[1] and args[1][0] == 'class':
                if strip_opt(args[0].typ) == ('cls', args[1][1].fq) and args[0].typ[0] != 'opt':
                    return TRUE         # annotated with exactly that class (callers hand what the annotation says: C13 / C15)
                return Cond('isinstance', (args[0], args[1][1].name))
            return Cond('opaque', ('isinstance',))
        if name in ('sorted', 'reversed') and args and not kwargs and isinstance(args[0], (Sym, TList)):
            return ('ordered', name, args[0])
        if name == 'sorted' and args:
            return self.opaque('sorted()')
        if name == 'print':
            return TNone
        if name in ('deepcopy', 'copy') and args:
            return args[0]
        return self.opaque(f'builtin {name}')

    def dict_lookup(self, pairs: list, k: Any, default: Any) -> Any:
        """lookup in a constant table: by a constant key, or by a symbolic value of the enum that the keys are members of
        (a chain of alternatives on `k == <member>`; when the table covers every member there is no default case)"""
        if isinstance(k, (TEnum, TConst)) or (isinstance(k, TStr) and k.is_const()):
            for kk, vv in pairs:
                if repr(kk) == repr(k):
                    return vv
            return default
        if isinstance(k, TAlt):
            a, b = self.dict_lookup(pairs, k.a, default), self.dict_lookup(pairs, k.b, default)
            if a is None or b is None:
                return None
            return a if a is b else TAlt(k.cond, a, b)
        if isinstance(k, Sym) and pairs and all(isinstance(kk, TEnum) for kk, _v in pairs) and \
                len({kk.cls.fq for kk, _v in pairs}) == 1 and strip_opt(k.typ) in (('cls', pairs[0][0].cls.fq), ANY):
            members = set(pairs[0][0].cls.enum_members)
            covered = {kk.member for kk, _v in pairs}
            acc = default if covered != members or default is not None and False else None
            items = list(pairs)
            if covered == members:
                acc = items[-1][1]
                items = items[:-1]
            else:
                acc = default
            for kk, vv in reversed(items):
                acc = self._alt(Cond('eq', (k, self.cond_leaf(kk))), vv, acc)
            return acc
        return None

    def method_call(self, recv: Any, meth: str, e: ast.Call, env, fn, depth) -> Any:
        if isinstance(recv, tuple) and recv and recv[0] == 'strtemplate' and meth in ('substitute', 'safe_substitute'):
            # string.Template over a constant text with constant values: constant folding of a pure library function
            mapping = {}
            ok = True
            for a_ in e.args:
                v_ = self.eval(a_, env, fn, depth)
                if isinstance(v_, tuple) and v_ and v_[0] == 'dict':
                    for k_, x_ in v_[1]:
                        if isinstance(k_, TStr) and k_.is_const() and isinstance(x_, TStr) and x_.is_const():
                            mapping[k_.const()] = x_.const()
                        else:
                            ok = False
                else:
                    ok = False
            for k_ in e.keywords:
                v_ = self.eval(k_.value, env, fn, depth) if k_.arg else None
                if k_.arg and isinstance(v_, TStr) and v_.is_const():
                    mapping[k_.arg] = v_.const()
                else:
                    ok = False
            if ok:
                import string as _string
                try:
                    return lit(getattr(_string.Template(recv[1]), meth)(mapping))
                except (KeyError, ValueError) as exc_:
                    return TRaise(f'string.Template.{meth}: {type(exc_).__name__}') if 'TRaise' in globals() else self.opaque(f'Template.{meth} fails')
            return self.opaque(f'string.Template.{meth} with values that are not constant')
        if isinstance(recv, tuple) and recv and recv[0] == 'dict' and meth == 'get' and 1 <= len(e.args) <= 2:
            k = self.eval(e.args[0], env, fn, depth)
            dflt = self.eval(e.args[1], env, fn, depth) if len(e.args) == 2 else TNone
            r = self.dict_lookup(recv[1], k, dflt)
            return r if r is not None else self.opaque('lookup in a constant table with a key that is not a constant')
        if isinstance(recv, tuple) and recv and recv[0] == 'dict' and meth == 'values' and not e.args:
            return TList([v for _k, v in recv[1]])
        if isinstance(recv, tuple) and recv and recv[0] == 'dict' and meth == 'keys' and not e.args:
            return TList([k_ for k_, _v in recv[1]])
        if isinstance(recv, tuple) and recv and recv[0] == 'groupdict':
            if meth == 'get' and e.args:
                k = self.eval(e.args[0], env, fn, depth)
                dflt = self.eval(e.args[1], env, fn, depth) if len(e.args) > 1 else TNone
                if not (isinstance(dflt, TList) and not dflt.items):
                    return self.opaque('dict.get default other than []')
                return self.group_lookup(recv, k, fn, depth)
            return self.opaque(f'dict.{meth} on grouped dictionary')
        if isinstance(recv, TAlt) and meth in ('append', 'extend') and isinstance(recv.a, TList) and isinstance(recv.b, TList) \
                and len(e.args) == 1:
            # `(a if c else b).append(x)` / `table[k].append(x)` with a conditional key: x goes to one of the two lists
            v = self.eval(e.args[0], env, fn, depth)
            va, vb = (v.a, v.b) if isinstance(v, TAlt) and repr(v.cond) == repr(recv.cond) else \
                ((v.parts[0].a, v.parts[0].b) if isinstance(v, TStr) and len(v.parts) == 1 and isinstance(v.parts[0], AltS)
                 and repr(v.parts[0].cond) == repr(recv.cond) else (v, v))
            ia = self.as_items(va) if meth == 'extend' else [va]
            ib = self.as_items(vb) if meth == 'extend' else [vb]
            recv.a.items.append(AltL(recv.cond, ia, []))
            recv.b.items.append(AltL(c_not(recv.cond), ib, []))
            return TNone
        if isinstance(recv, TAlt):
            ra = self.method_call(recv.a, meth, e, env, fn, depth)
            rb = self.method_call(recv.b, meth, e, env, fn, depth)
            if ra is not NotImplemented and rb is not NotImplemented:
                return self._alt(recv.cond, ra, rb)
            return NotImplemented
        if isinstance(recv, TList):
            if meth == 'append' and e.args:
                recv.items.append(self.eval(e.args[0], env, fn, depth))
                return TNone
            if meth == 'extend' and e.args:
                recv.items.extend(self.as_items(self.eval(e.args[0], env, fn, depth)))
                return TNone
            if meth == 'insert' and len(e.args) == 2 and isinstance(e.args[0], ast.Constant) and \
                    isinstance(e.args[0].value, int) and 0 <= e.args[0].value <= len(recv.items) and \
                    all(not isinstance(x, (RepL, AltL)) for x in recv.items[:e.args[0].value]):
                recv.items.insert(e.args[0].value, self.eval(e.args[1], env, fn, depth))
                return TNone
            return self.opaque(f'list.{meth}')
        if isinstance(recv, TStr):
            if meth == 'join' and e.args:
                seq = self.eval(e.args[0], env, fn, depth)
                return self.join(recv, seq, depth)
            if meth in ('upper', 'lower', 'strip', 'rstrip', 'lstrip', 'capitalize') and not e.args:
                c = recv.const()
                if c is not None:
                    return lit(getattr(c, meth)())
                if len(recv.parts) == 1 and isinstance(recv.parts[0], Hole):
                    h = recv.parts[0]
                    return TStr([Hole(h.sym, h.transform + f'.{meth}()')])
                if meth in ('strip', 'rstrip', 'lstrip'):
                    return recv          # layout only
                return TStr([OpaqueS(f'str.{meth}')])
            if meth in ('startswith', 'endswith') and len(e.args) == 1:
                arg = self.eval(e.args[0], env, fn, depth)
                c, a = recv.const(), arg.const() if isinstance(arg, TStr) else None
                if c is not None and a is not None:
                    return TRUE if getattr(c, meth)(a) else FALSE
                return Cond(meth, (self.cond_leaf(recv), self.cond_leaf(arg)))
            if meth == 'startswith':
                return Cond('opaque', ('startswith',))
            if meth == 'format' and recv.const() is not None and not any(isinstance(a, ast.Starred) for a in e.args) and \
                    all(k.arg for k in e.keywords):
                import string
                pos = [self.eval(a, env, fn, depth) for a in e.args]
                kw = {k.arg: self.eval(k.value, env, fn, depth) for k in e.keywords}
                out = TStr()
                auto = 0
                try:
                    for text, field_name, spec, conv in string.Formatter().parse(recv.const()):
                        if text:
                            out = out + lit(text)
                        if field_name is None:
                            continue
                        if spec or conv:
                            return self.opaque('str.format with a format spec')
                        if field_name == '':
                            v = pos[auto]
                            auto += 1
                        elif field_name.isdigit():
                            v = pos[int(field_name)]
                        else:
                            v = kw[field_name]
                        out = out + self.to_str(v, depth)
                except (KeyError, IndexError, ValueError):
                    return self.opaque('str.format with a field that is not given')
                return out
            return self.opaque(f'str.{meth}')
        if isinstance(recv, Sym) and strip_opt(recv.typ)[0] in ('str', 'any') and meth in ('startswith', 'endswith') \
                and len(e.args) == 1:
            return Cond(meth, (recv, self.cond_leaf(self.eval(e.args[0], env, fn, depth))))
        if isinstance(recv, Sym) and strip_opt(recv.typ)[0] in ('str', 'any') and \
                meth in ('upper', 'lower', 'strip', 'rstrip', 'lstrip', 'capitalize', 'title') and not e.args:
            return TStr([Hole(recv, f'.{meth}()')])
        if isinstance(recv, TBlock):
            if meth in ('indent', 'trim', 'set_indentor'):
                return recv
            if meth == 'append' and e.args:
                recv.items.extend(self.block_items(self.eval(e.args[0], env, fn, depth), depth))
                return recv
            return NotImplemented
        if isinstance(recv, TObj) and self.prog.is_subclass(recv.cls.fq, 'dznpy.text_gen.TextBlock'):
            blk = recv.fields.get('__block__')
            if isinstance(blk, TBlock):
                return self.method_call(blk, meth, e, env, fn, depth)
        return NotImplemented

    def join(self, sep: TStr, seq: Any, depth: int) -> TStr:
        if isinstance(seq, TList):
            if len(seq.items) == 1 and isinstance(seq.items[0], RepL) and len(seq.items[0].items) == 1:
                rep = seq.items[0]
                return TStr([RepS(sep, self.to_str(rep.items[0], depth), rep.src)])
            if all(not isinstance(x, (RepL, AltL)) for x in seq.items):
                out = TStr()
                for i, x in enumerate(seq.items):
                    if i:
                        out = out + sep
                    out = out + self.to_str(x, depth)
                return out
            # mixture: sequence of parts, separator between dynamic groups is approximated
            out = TStr()
            first = True
            for x in seq.items:
                if isinstance(x, RepL):
                    body = TStr()
                    for y in x.items:
                        body = body + self.to_str(y, depth)
                    out = out + (TStr() if first else sep) + TStr([RepS(sep, body, x.src)])
                elif isinstance(x, AltL):
                    a = self.join(sep, TList(x.a), depth)
                    b = self.join(sep, TList(x.b), depth)
                    out = out + TStr([AltS(x.cond, a, b)])
                else:
                    out = out + (TStr() if first else sep) + self.to_str(x, depth)
                first = False
            return out
        if isinstance(seq, tuple) and seq and seq[0] == 'ordered':
            inner = self.join(sep, seq[2], depth)
            if len(inner.parts) == 1 and isinstance(inner.parts[0], RepS):
                r = inner.parts[0]
                return TStr([RepS(r.sep, r.elem, Src(r.src.base, r.src.var, r.src.filters, seq[1] + ('+' + r.src.order if r.src.order else '')))])
            return TStr([OpaqueS(f'join of {seq[1]}()')])
        if isinstance(seq, Sym):
            var = self.new_sym('item', TypeEnv.elem_type(seq.typ))
            return TStr([RepS(sep, TStr([Hole(var)]), Src(seq, var, []))])
        return TStr([OpaqueS('join of ' + type(seq).__name__)])

    # -- native models of the text layer ------------------------------------------------------------------------------------------------
    def native(self, fnc: FuncInfo, args: list, kwargs: dict, depth: int) -> Any:
        name = fnc.qualname
        mod = fnc.module.name
        if mod == 'dznpy.misc_utils' and name == 'flatten_to_strlist':
            return TList(self.block_items(args[0] if args else kwargs.get('value', TNone), depth))
        if mod == 'dznpy.text_gen' and name == 'chunk':
            content = args[0] if args else kwargs.get('content', TNone)
            appendix = args[1] if len(args) > 1 else kwargs.get('appendix', lit('\n'))
            items = self.block_items(content, depth)
            c = self.nonempty(items)
            blk = TBlock(items + self.block_items(appendix, depth))
            if c == TRUE:
                return blk
            if c == FALSE:
                return TNone
            return TAlt(c, blk, TNone)
        if mod == 'dznpy.text_gen' and name == 'cond_chunk':
            names = ['preamble', 'content', 'empty_response', 'appendix', 'all_or_nothing']
            vals = dict(zip(names, args))
            vals.update(kwargs)
            pre = self.block_items(vals.get('preamble', TNone), depth)
            content = self.block_items(vals.get('content', TNone), depth)
            empty = vals.get('empty_response', TNone)
            appendix = self.block_items(vals.get('appendix', lit('\n')), depth)
            aon = vals.get('all_or_nothing', TConst(False))
            c = self.nonempty(content)
            full = TBlock(pre + content + appendix)
            if isinstance(aon, TConst) and aon.value:
                other = TBlock(self.block_items(empty, depth)) if self.truthy(empty) != FALSE else TNone
            else:
                ei = self.block_items(empty, depth)
                other = TBlock(pre + ei + appendix) if (pre or ei) else TNone
            if c == TRUE:
                return full
            if c == FALSE:
                return other
            return TAlt(c, full, other)
        if mod == 'dznpy.misc_utils' and name == 'plural':
            noun = args[0] if args else kwargs.get('singular_noun')
            return self.to_str(noun, depth) + lit('(s)')
        if mod == 'dznpy.misc_utils' and name in ('assert_t', 'assert_t_optional'):
            return TNone
        if mod == 'dznpy.scoping' and name in ('ns_ids_t', 'namespaceids_t'):
            v = args[0] if args else TNone
            if isinstance(v, TStr) and v.is_const():
                return ('nsids', tuple(x for x in v.const().replace('::', '.').split('.') if x))
            if isinstance(v, TStr) and len(v.parts) == 1 and isinstance(v.parts[0], AltS):
                # a name chosen by a condition: the identifiers of either alternative
                p_ = v.parts[0]
                return self._alt(p_.cond, self.native(fnc, [p_.a], {}, depth), self.native(fnc, [p_.b], {}, depth))
            if isinstance(v, TAlt):
                return self._alt(v.cond, self.native(fnc, [v.a], {}, depth), self.native(fnc, [v.b], {}, depth))
            if isinstance(v, TList) and not v.items:
                return ('nsids', ())
            return v
        if mod == 'dznpy.ast_view' and name in ('find_fqn', 'find_any'):
            names = ['fct', 'ns_ids', 'as_of_inner_scope']
            vals = dict(zip(names, args))
            vals.update(kwargs)
            return ('findresult', name, vals.get('ns_ids', TNone), vals.get('as_of_inner_scope', TNone))
        if mod == 'dznpy.cpp_gen' and name == 'fqn_t':
            ns = args[0] if args else kwargs.get('ns_ids', TNone)
            root = args[1] if len(args) > 1 else kwargs.get('prefix_root_ns', TConst(False))
            if isinstance(ns, TStr) and ns.is_const():
                ns = ('nsids', tuple(x for x in ns.const().replace('::', '.').split('.') if x))
            return TObj(self.prog.cls('cpp_gen', 'Fqn'), {'ns_ids': ns, 'prefix_root_ns': root})
        return NotImplemented

    def construct(self, cls: ClassInfo, args: list, kwargs: dict, depth: int) -> Any:
        prog = self.prog
        if prog.is_subclass(cls.fq, 'dznpy.text_gen.TextBlock'):
            content = args[0] if args else kwargs.get('content', TNone)
            header = args[1] if len(args) > 1 else kwargs.get('header', TNone)
            items = self.block_items(header, depth) + self.block_items(content, depth)
            return TBlock(items, comment=(cls.name == 'Comment'))
        if cls.is_exception:
            return TRaise(cls.name)
        fields: Dict[str, Any] = {}
        init = prog.lookup_method(cls, '__init__')
        if init is not None:
            obj = TObj(cls, fields)
            self.call_function(init, args, kwargs, depth + 1, self_val=obj)
            return obj
        names = list(prog.class_fields(cls).keys())
        for i, a in enumerate(args):
            if i < len(names):
                fields[names[i]] = a
        for k, v in kwargs.items():
            fields[k] = v
        for nm, (_ann, dflt, owner) in prog.class_fields(cls).items():
            if nm not in fields:
                fields[nm] = self.default_value(dflt, owner)
        obj = TObj(cls, fields)
        probe = getattr(self, 'probe_post_init', None)
        if probe is not None and cls.fq in probe:
            # under which conditions does __post_init__ raise for THIS construction? (C13: relational consistency checks)
            post = prog.lookup_method(cls, '__post_init__')
            if post is not None and depth < self.MAX_DEPTH:
                saved = list(self.opaque_log)
                self.probe_hits = getattr(self, 'probe_hits', 0) + 1
                _falls, rets = self._block(post.node.body, {'self': obj}, post, depth + 1)
                del self.opaque_log[len(saved):]
                for c, v in rets:
                    if isinstance(v, TRaise):
                        probe[cls.fq].append(c)
        return obj

    def default_value(self, dflt: Optional[ast.expr], owner: ClassInfo) -> Any:
        if dflt is None:
            return self.opaque('missing field')
        if isinstance(dflt, ast.Call) and getattr(dflt.func, 'id', getattr(dflt.func, 'attr', '')) == 'field':
            for kw in dflt.keywords:
                if kw.arg == 'default':
                    dflt = kw.value
                    break
                if kw.arg == 'default_factory':
                    nm = getattr(kw.value, 'id', '')
                    if nm == 'list':
                        return TList([])
                    sym = self.prog.resolve_expr_symbol(owner.module, kw.value)
                    if isinstance(sym, ClassInfo):
                        return self.construct(sym, [], {}, 2)
                    if isinstance(sym, FuncInfo):
                        return self.call_function(sym, [], {}, 2)
                    return self.opaque('default_factory')
            else:
                return self.opaque('field()')
        ctxfn = next(iter(owner.methods.values()), None) or next(iter(owner.module.functions.values()), None)
        if ctxfn is None:
            return self.opaque('default')
        return self.eval(dflt, {}, ctxfn, 2)
