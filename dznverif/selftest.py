"""Checker self-test: seeded single-fault variants must be reported (naming the seeded rule),
behaviour-preserving variants must stay silent.

A variant is a list of exact text replacements applied to a scratch copy of /repo/src (created under
$TMPDIR, outside /repo and /verif, removed right after the run).  Every variant must still be
compilable Python; by construction it still passes the pinned tests (they import the wheel).
A stale variant (its `old` text no longer occurs exactly once) is reported as a self-test error.
"""
from __future__ import annotations

import concurrent.futures as cf
import importlib
import os
import re
import shutil
import subprocess
import sys
import tempfile
from typing import Dict, List, Tuple

VERIF_ROOT = os.path.dirname(os.path.dirname(os.path.abspath(__file__)))


def load_catalogue() -> List[dict]:
    out = []
    cat_dir = os.path.join(VERIF_ROOT, 'selftest')
    sys.path.insert(0, cat_dir)
    try:
        for fn in sorted(os.listdir(cat_dir)):
            if fn.startswith('variants_') and fn.endswith('.py'):
                mod = importlib.import_module(fn[:-3])
                out.extend(mod.VARIANTS)
    finally:
        sys.path.pop(0)
    ids = [v['id'] for v in out]
    dup = {i for i in ids if ids.count(i) > 1}
    if dup:
        raise RuntimeError(f'duplicate variant ids {dup}')
    return out


def make_variant(repo: str, variant: dict) -> str:
    """Create the scratch copy; returns its root (a directory with src/dznpy)."""
    base = tempfile.mkdtemp(prefix='dznverif-variant-')
    shutil.copytree(os.path.join(repo, 'src'), os.path.join(base, 'src'),
                    ignore=shutil.ignore_patterns('__pycache__', '*.pyc'))
    for edit in variant['edits']:
        path = os.path.join(base, 'src', 'dznpy', edit['file'])
        with open(path, encoding='utf-8') as fh:
            src = fh.read()
        n = src.count(edit['old'])
        want = edit.get('count', 1)
        if n != want:
            shutil.rmtree(base, ignore_errors=True)
            raise LookupError(f"variant {variant['id']}: text occurs {n}x (expected {want}) in {edit['file']}: "
                              f"{edit['old'][:60]!r}")
        src = src.replace(edit['old'], edit['new'])
        compile(src, path, 'exec')
        with open(path, 'w', encoding='utf-8') as fh:
            fh.write(src)
    return base


def run_variant(repo: str, variant: dict) -> Tuple[str, bool, str]:
    try:
        base = make_variant(repo, variant)
    except (LookupError, SyntaxError) as exc:
        return variant['id'], False, f'STALE/INVALID: {exc}'
    try:
        env = dict(os.environ, DZNVERIF_NO_EVIDENCE='1', DZNVERIF_REPO=base)
        props = variant['prop'] if isinstance(variant['prop'], list) else [variant['prop']]
        msgs = []
        ok_all = True
        for prop in props:
            proc = subprocess.run([sys.executable, '-m', 'dznverif', 'check', prop, '--repo', base,
                                   '--tier', variant.get('tier', 'quick')],
                                  cwd=VERIF_ROOT, env=env, capture_output=True, text=True, timeout=300)
            out = proc.stdout
            viol_rules = re.findall(r'^\s+rule (\S+) @ (\S+) (\S+):', out, flags=re.M)
            if variant['expect'] == 'violation':
                want_rule = variant.get('rule')
                want_func = variant.get('func')
                hit = [v for v in viol_rules if (not want_rule or v[0] == want_rule)
                       and (not want_func or want_func in v[2])]
                ok = proc.returncode == 1 and bool(hit)
                if not ok:
                    msgs.append(f'{prop}: expected VIOLATION rule={want_rule} func={want_func}; exit={proc.returncode} '
                                f'reported={sorted(set(v[0] for v in viol_rules))}'
                                + (' ERR:' + '|'.join(re.findall(r'^ANALYSIS-ERROR.*$', out, flags=re.M))[:300]
                                   if proc.returncode == 2 else ''))
            else:
                ok = proc.returncode == 0
                if not ok:
                    lines = [l for l in out.splitlines() if l.startswith(('VIOLATION', 'ANALYSIS-ERROR', '  rule'))]
                    msgs.append(f'{prop}: expected silence; exit={proc.returncode}: ' + ' | '.join(lines)[:400])
            ok_all = ok_all and ok
        return variant['id'], ok_all, '; '.join(msgs)
    finally:
        shutil.rmtree(base, ignore_errors=True)


def run_selftest(props: List[str], repo: str, jobs: int, seed: int, quiet: bool = False) -> int:
    cat = [v for v in load_catalogue()
           if any(p in props for p in (v['prop'] if isinstance(v['prop'], list) else [v['prop']]))]
    if not cat:
        print('selftest: no variants for', props)
        return 0
    bad = 0
    with cf.ThreadPoolExecutor(max_workers=jobs) as ex:
        for vid, ok, msg in ex.map(lambda v: run_variant(repo, v), cat):
            if not ok:
                bad += 1
                print(f'SELFTEST-FAIL {vid}: {msg}')
            elif not quiet:
                print(f'selftest ok   {vid}')
    n_fault = sum(1 for v in cat if v['expect'] == 'violation')
    print(f'selftest: {len(cat)} variants ({n_fault} seeded faults, {len(cat) - n_fault} behaviour-preserving), '
          f'{bad} failed')
    return 2 if bad else 0
