"""Checker self-test: seeded single-fault variants must be reported (naming the seeded rule),
behaviour-preserving variants must stay silent.

A variant is a list of exact text replacements applied to a scratch copy of /repo/src (created under
$TMPDIR, outside /repo and /verif, removed right after the run).  Every variant must still be
compilable Python; by construction it still passes the pinned tests (they import the wheel).
A stale variant (its `old` text no longer occurs exactly once) is reported as a self-test error.
"""
from __future__ import annotations

import concurrent.futures as cf
import importlib
import os
import re
import shutil
import subprocess
import sys
import tempfile
from typing import Dict, List, Tuple

VERIF_ROOT = os.path.dirname(os.path.dirname(os.path.abspath(__file__)))


def load_catalogue() -> List[dict]:
    out = []
    cat_dir = os.path.join(VERIF_ROOT, 'selftest')
    sys.path.insert(0, cat_dir)
    try:
        for fn in sorted(os.listdir(cat_dir)):
            if fn.startswith('variants_') and fn.endswith('.py'):
                mod = importlib.import_module(fn[:-3])
                out.extend(mod.VARIANTS)
    finally:
        sys.path.pop(0)
    ids = [v['id'] for v in out]
    dup = {i for i in ids if ids.count(i) > 1}
    if dup:
        raise RuntimeError(f'duplicate variant ids {dup}')
    return out


def make_variant(repo: str, variant: dict) -> str:
    """Create the scratch copy; returns its root (a directory with src/dznpy)."""
    base = tempfile.mkdtemp(prefix='dznverif-variant-')
    shutil.copytree(os.path.join(repo, 'src'), os.path.join(base, 'src'),
                    ignore=shutil.ignore_patterns('__pycache__', '*.pyc'))
    for edit in variant['edits']:
        path = os.path.join(base, 'src', 'dznpy', edit['file'])
        with open(path, encoding='utf-8') as fh:
            src = fh.read()
        n = src.count(edit['old'])
        want = edit.get('count', 1)
        if n != want:
            shutil.rmtree(base, ignore_errors=True)
            raise LookupError(f"variant {variant['id']}: text occurs {n}x (expected {want}) in {edit['file']}: "
                              f"{edit['old'][:60]!r}")
        src = src.replace(edit['old'], edit['new'])
        compile(src, path, 'exec')
        with open(path, 'w', encoding='utf-8') as fh:
            fh.write(src)
    return base


def run_variant(repo: str, variant: dict) -> Tuple[str, bool, str]:
    try:
        base = make_variant(repo, variant)
    except (LookupError, SyntaxError) as exc:
        return variant['id'], False, f'STALE/INVALID: {exc}'
    try:
        env = dict(os.environ, DZNVERIF_NO_EVIDENCE='1', DZNVERIF_NO_SELFVALIDATION='1', DZNVERIF_REPO=base)
        props = variant['prop'] if isinstance(variant['prop'], list) else [variant['prop']]
        msgs = []
        ok_all = True
        for prop in props:
            proc = subprocess.run([sys.executable, '-m', 'dznverif', 'check', prop, '--repo', base,
                                   '--tier', variant.get('tier', 'quick')],
                                  cwd=VERIF_ROOT, env=env, capture_output=True, text=True, timeout=300)
            out = proc.stdout
            viol_rules = re.findall(r'^\s+rule (\S+) @ (\S+) (\S+):', out, flags=re.M)
            if variant['expect'] == 'violation':
                want_rule = variant.get('rule')
                want_func = variant.get('func')
                hit = [v for v in viol_rules if (not want_rule or v[0] == want_rule)
                       and (not want_func or want_func in v[2])]
                ok = proc.returncode == 1 and bool(hit)
                if not ok:
                    msgs.append(f'{prop}: expected VIOLATION rule={want_rule} func={want_func}; exit={proc.returncode} '
                                f'reported={sorted(set(v[0] for v in viol_rules))}'
                                + (' ERR:' + '|'.join(re.findall(r'^ANALYSIS-ERROR.*$', out, flags=re.M))[:300]
                                   if proc.returncode == 2 else ''))
            else:
                ok = proc.returncode == 0
                if not ok:
                    lines = [l for l in out.splitlines() if l.startswith(('VIOLATION', 'ANALYSIS-ERROR', '  rule'))]
                    msgs.append(f'{prop}: expected silence; exit={proc.returncode}: ' + ' | '.join(lines)[:400])
            ok_all = ok_all and ok
        return variant['id'], ok_all, '; '.join(msgs)
    finally:
        shutil.rmtree(base, ignore_errors=True)


def run_selftest(props: List[str], repo: str, jobs: int, seed: int, quiet: bool = False) -> int:
    cat = [v for v in load_catalogue()
           if any(p in props for p in (v['prop'] if isinstance(v['prop'], list) else [v['prop']]))]
    if not cat:
        print('selftest: no variants for', props)
        return 0
    bad = 0
    with cf.ThreadPoolExecutor(max_workers=jobs) as ex:
        for vid, ok, msg in ex.map(lambda v: run_variant(repo, v), cat):
            if not ok:
                bad += 1
                print(f'SELFTEST-FAIL {vid}: {msg}')
            elif not quiet:
                print(f'selftest ok   {vid}')
    n_fault = sum(1 for v in cat if v['expect'] == 'violation')
    print(f'selftest: {len(cat)} variants ({n_fault} seeded faults, {len(cat) - n_fault} behaviour-preserving), '
          f'{bad} failed')
    return 2 if bad else 0


# ------------------------------------------------------------------------------------------------------------------
# seeded changes written by independent sub-agents (kept under /verif/seeded/<id>/): patch.diff + meta.json
# ------------------------------------------------------------------------------------------------------------------
def load_seeded() -> List[dict]:
    import json
    out = []
    root = os.path.join(VERIF_ROOT, 'seeded')
    if not os.path.isdir(root):
        return out
    for d in sorted(os.listdir(root)):
        meta = os.path.join(root, d, 'meta.json')
        patch = os.path.join(root, d, 'patch.diff')
        if os.path.exists(meta) and os.path.exists(patch):
            with open(meta) as fh:
                m = json.load(fh)
            if m.get('pending'):
                continue        # imported but not triaged yet: not part of the self-validation
            m['dir'] = os.path.join(root, d)
            m['patch'] = patch
            m.setdefault('id', d)
            out.append(m)
    return out


def seeded_expectation(m: dict, prop: str) -> str:
    """'report' | 'silent' | 'any' - what the check of `prop` must do on this stored change."""
    if any(w['property'] == prop for w in (m.get('caught_by') or [])):
        return 'report'
    if any(w['property'] == prop for w in (m.get('imprecise') or [])):
        return 'any'
    return 'silent'


def run_seeded(repo: str, m: dict, props: List[str]) -> List[Tuple[str, str, str, str]]:
    """-> [(id, property, 'ok' | 'missed' | 'false-alarm' | 'stale', detail)].  The patch is applied to a scratch copy of src/."""
    base = tempfile.mkdtemp(prefix='dznverif-seeded-')
    out = []
    try:
        shutil.copytree(os.path.join(repo, 'src'), os.path.join(base, 'src'),
                        ignore=shutil.ignore_patterns('__pycache__', '*.pyc'))
        ap = subprocess.run(['git', 'apply', '--whitespace=nowarn', m['patch']], cwd=base, capture_output=True, text=True)
        if ap.returncode != 0:
            return [(m['id'], p_, 'stale', ap.stderr.strip()[:200]) for p_ in props]
        env = dict(os.environ, DZNVERIF_NO_EVIDENCE='1', DZNVERIF_NO_SELFVALIDATION='1', DZNVERIF_REPO=base)
        for prop in props:
            want = seeded_expectation(m, prop)
            if want == 'any':
                continue
            w = next((x for x in (m.get('caught_by') or []) if x['property'] == prop), {})
            proc = subprocess.run([sys.executable, '-m', 'dznverif', 'check', prop, '--repo', base,
                                   '--tier', w.get('tier', 'quick')],
                                  cwd=VERIF_ROOT, env=env, capture_output=True, text=True, timeout=600)
            rules = set(re.findall(r'^\s+rule (\S+) @', proc.stdout, flags=re.M))
            detail = f'exit={proc.returncode} rules={sorted(rules)}'
            if want == 'report':
                ok = proc.returncode == 1 and (not w.get('rule') or w['rule'] in rules)
                out.append((m['id'], prop, 'ok' if ok else 'missed', detail))
            else:
                out.append((m['id'], prop, 'ok' if proc.returncode == 0 else 'false-alarm', detail))
        return out
    finally:
        shutil.rmtree(base, ignore_errors=True)


def validate_for(prop: str, repo: str, jobs: int = 16) -> Dict[str, object]:
    """Checker self-validation used by the thorough tier: every catalogue variant and every stored seeded change that
    names this property is replayed on a scratch copy of the CURRENT tree.  Stale entries (the text / patch no longer
    applies because the tree moved on) are skipped and counted; a non-stale entry that is not judged as recorded is a
    defect of the checker and is returned in `misbehaved`."""
    cat = [v for v in load_catalogue()
           if prop in (v['prop'] if isinstance(v['prop'], list) else [v['prop']])]
    res = {'variants': len(cat), 'seeded_faults_reported': 0, 'behaviour_preserving_silent': 0, 'stale_skipped': 0,
           'agent_changes_replayed': 0, 'agent_changes_reported': 0, 'agent_changes_silent': 0, 'misbehaved': []}
    with cf.ThreadPoolExecutor(max_workers=jobs) as ex:
        for v, (vid, ok, msg) in zip(cat, ex.map(lambda v: run_variant(repo, dict(v, prop=prop)), cat)):
            if msg.startswith('STALE/INVALID'):
                res['stale_skipped'] += 1
            elif ok:
                res['seeded_faults_reported' if v['expect'] == 'violation' else 'behaviour_preserving_silent'] += 1
            else:
                res['misbehaved'].append(f'{vid}: {msg}'[:300])
        seeded = load_seeded()
        for m, results in zip(seeded, ex.map(lambda m: run_seeded(repo, m, [prop]), seeded)):
            for mid, _p, verdict, detail in results:
                if verdict == 'stale':
                    res['stale_skipped'] += 1
                    continue
                res['agent_changes_replayed'] += 1
                if verdict == 'ok':
                    if seeded_expectation(m, prop) == 'report':
                        res['agent_changes_reported'] += 1
                    else:
                        res['agent_changes_silent'] += 1
                else:
                    res['misbehaved'].append(f'seeded/{mid}: {verdict} {detail}'[:300])
    return res
