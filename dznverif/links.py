"""E4 (part 3) - scenario evaluation of generator templates and extraction of the per-event link statements.

A *scenario* fixes the finite facts the emitters branch on: port side (provides/requires), runtime semantics,
multi-client or not, event direction, event role (claim / release / other), facilities origin.  `Scenario.simplify`
resolves every alternative / repetition filter of a template whose condition is decided by the scenario and
keeps the rest symbolic.  Statements are then read off the C++ token view.
"""
from __future__ import annotations

import ast
from dataclasses import dataclass, field
from typing import Any, Dict, Iterable, List, Optional, Tuple

from .template import (TStr, Lit, Hole, AltS, RepS, CommentS, FqnS, OpaqueS, TList, TBlock, TObj, TAlt, RepL, AltL,
                       Src, Sym, Cond, TEnum, TConst, TRUE, FALSE, TNone, TRaise, TOpaque, Evaluator, c_not)
from .cxxlex import lex, split_statements, match_close, tok_text, toks_text

PORT_KINDS = {
    'P-STS': dict(side='provides', semantics='STS', multiclient=False),
    'P-MTS-plain': dict(side='provides', semantics='MTS', multiclient=False),
    'P-MTS-multiclient': dict(side='provides', semantics='MTS', multiclient=True),
    'R-STS': dict(side='requires', semantics='STS', multiclient=False),
    'R-MTS': dict(side='requires', semantics='MTS', multiclient=False),
}


@dataclass
class Scenario:
    kind: Optional[str] = None             # key of PORT_KINDS
    direction: Optional[str] = None        # 'IN' | 'OUT'  (event direction)
    role: Optional[str] = None             # 'claim' | 'release' | 'other'
    origin: Optional[str] = None           # 'CREATE' | 'IMPORT'
    has_multiclient: Optional[bool] = None
    reply_void: Optional[bool] = None      # is the reply type of the scenario's event `void`?
    port_roots: Dict[str, str] = field(default_factory=dict)   # symbol root -> 'provides' | 'requires'
    assume_events: bool = True
    known_none: Dict[tuple, bool] = field(default_factory=dict)   # (symbol root, path) -> is None (facts established elsewhere)

    # -- deciding conditions --------------------------------------------------------------------------------------
    def decide(self, c: Cond) -> Optional[bool]:
        if c.op == 'const':
            return bool(c.args[0])
        if c.op == 'not':
            r = self.decide(c.args[0])
            return None if r is None else not r
        if c.op == 'and':
            rs = [self.decide(x) for x in c.args]
            if any(r is False for r in rs):
                return False
            return True if all(r is True for r in rs) else None
        if c.op == 'or':
            rs = [self.decide(x) for x in c.args]
            if any(r is True for r in rs):
                return True
            return False if all(r is False for r in rs) else None
        k = PORT_KINDS.get(self.kind) if self.kind else None
        if c.op in ('eq', 'ne'):
            a, b = c.args
            if isinstance(b, Sym) and not isinstance(a, Sym):
                a, b = b, a
            res = None
            if isinstance(a, Sym) and isinstance(b, TEnum):
                # the enum class says which scenario dimension is tested
                if b.cls.name == 'RuntimeSemantics' and k is not None:
                    res = (k['semantics'] == b.member)
                elif b.cls.name == 'EventDirection' and self.direction is not None:
                    res = (self.direction == b.member)
                elif b.cls.name == 'FacilitiesOrigin' and self.origin is not None:
                    res = (self.origin == b.member)
                elif b.cls.name == 'PortDirection' and k is not None:
                    res = (k['side'].upper() == b.member)
            elif isinstance(a, Sym) and a.path[-3:] == ('signature', 'type_name', 'value') and \
                    isinstance(b, str) and "'void'" in b and self.reply_void is not None:
                res = self.reply_void
            elif isinstance(a, Sym) and isinstance(b, Sym) and self.role is not None:
                la, lb = (a.path[-1] if a.path else ''), (b.path[-1] if b.path else '')
                for x, y in ((la, lb), (lb, la)):
                    if y in ('claim_event', 'release_event') and x not in ('claim_event', 'release_event'):
                        res = (self.role == y.split('_')[0])
            if res is None:
                return None
            return res if c.op == 'eq' else not res
        if c.op in ('truthy', 'is_none', 'not_none'):
            a = c.args[0]
            if isinstance(a, Sym) and (a.root.split('#')[0], tuple(a.path)) in self.known_none:
                none_ = self.known_none[(a.root.split('#')[0], tuple(a.path))]
                if c.op == 'is_none':
                    return none_
                if c.op == 'not_none' or none_:
                    return not none_
            if isinstance(a, Sym) and a.path and a.path[-1] == 'multiclient' and k is not None:
                has = k['multiclient']
                return has if c.op in ('truthy', 'not_none') else not has
            return None
        if c.op == 'nonempty':
            src = c.args[0]
            if isinstance(src, Src) and isinstance(src.base, Sym) and src.base.path[-2:] == ('events', 'elements') \
                    and self.assume_events and self.direction is not None:
                # an event of the scenario's direction exists; loops filtering the other direction are empty
                ok = all(self.decide(f) is not False for f in src.filters)
                return True if ok else False
            return None
        if c.op == 'exists':
            src, inner = c.args
            if self.has_multiclient is not None and 'multiclient' in repr(inner):
                return self.has_multiclient
            return None
        return None

    def accepts_port(self, src: Src) -> Optional[bool]:
        """Does a loop over ports with this source/filters run for the scenario's port kind?"""
        k = PORT_KINDS.get(self.kind)
        if k is None or not isinstance(src.base, Sym):
            return None
        side = self.port_roots.get(src.base.root)
        if side is not None and side != k['side']:
            return False
        for f in src.filters:
            r = self.decide(f)
            if r is False:
                return False
            if r is None:
                return None
        return True if side is not None else None

    # -- selection of alternatives in non-string values ----------------------------------------------------------------------
    def select(self, v: Any, depth: int = 0) -> Any:
        """Resolve TAlt / AltL alternatives decided by the scenario (recursively through lists and objects)."""
        if depth > 30:
            return v
        if isinstance(v, TAlt):
            r = self.decide(v.cond)
            if r is True:
                return self.select(v.a, depth + 1)
            if r is False:
                return self.select(v.b, depth + 1)
            return TAlt(v.cond, self.select(v.a, depth + 1), self.select(v.b, depth + 1))
        if isinstance(v, TStr):
            return self.simplify(v)
        if isinstance(v, (TList, TBlock)):
            items = self.select_items(v.items, depth + 1)
            return TList(items) if isinstance(v, TList) else TBlock(items, v.comment)
        if isinstance(v, TObj):
            return TObj(v.cls, {k: (self.select(x, depth + 1) if k != 'scope' else x) for k, x in v.fields.items()})
        return v

    def select_items(self, items: list, depth: int = 0) -> list:
        out = []
        for it in items:
            if isinstance(it, AltL):
                r = self.decide(it.cond)
                if r is True:
                    out.extend(self.select_items(it.a, depth + 1))
                elif r is False:
                    out.extend(self.select_items(it.b, depth + 1))
                else:
                    out.append(AltL(it.cond, self.select_items(it.a, depth + 1), self.select_items(it.b, depth + 1)))
            elif isinstance(it, RepL):
                out.append(RepL(it.src, self.select_items(it.items, depth + 1)))
            else:
                out.append(self.select(it, depth + 1))
        return out

    # -- simplification ---------------------------------------------------------------------------------------------------
    def simplify(self, s: TStr) -> TStr:
        out = TStr()
        for p in s.parts:
            if isinstance(p, AltS):
                r = self.decide(p.cond)
                if r is True:
                    out = out + self.simplify(p.a)
                elif r is False:
                    out = out + self.simplify(p.b)
                else:
                    out = out + TStr([AltS(p.cond, self.simplify(p.a), self.simplify(p.b))])
            elif isinstance(p, RepS):
                out = out + TStr([RepS(self.simplify(p.sep), self.simplify(p.elem), p.src)])
            elif isinstance(p, CommentS):
                continue
            else:
                out = out + TStr([p])
        return out


# ----------------------------------------------------------------------------------------------------------------
# walking an abstract value: loops over ports / events with their conditions
# ----------------------------------------------------------------------------------------------------------------
@dataclass
class Frame:
    kind: str            # 'rep' | 'cond'
    src: Optional[Src] = None
    cond: Optional[Cond] = None


@dataclass
class EventLoop:
    frames: List[Frame]          # enclosing repetitions / conditions, outermost first
    src: Src
    body: TStr
    where: str


def collect_loops(ev: Evaluator, val: Any, pred, frames: Optional[List[Frame]] = None, where: str = '',
                  out: Optional[List[EventLoop]] = None, depth: int = 0) -> List[EventLoop]:
    """All repetitions whose source satisfies `pred`, with their enclosing frames (generalises `walk`)."""
    frames = frames or []
    out = out if out is not None else []
    if depth > 40 or val is None or val is TNone:
        return out
    if isinstance(val, TStr):
        for p in val.parts:
            if isinstance(p, AltS):
                collect_loops(ev, p.a, pred, frames + [Frame('cond', cond=p.cond)], where, out, depth + 1)
                collect_loops(ev, p.b, pred, frames + [Frame('cond', cond=c_not(p.cond))], where, out, depth + 1)
            elif isinstance(p, RepS):
                if pred(p.src):
                    out.append(EventLoop(list(frames), p.src, p.elem, where))
                collect_loops(ev, p.elem, pred, frames + [Frame('rep', src=p.src)], where, out, depth + 1)
    elif isinstance(val, (TList, TBlock)):
        for it in val.items:
            collect_loops(ev, it, pred, frames, where, out, depth + 1)
    elif isinstance(val, RepL):
        if pred(val.src):
            body = TStr()
            for x in val.items:
                body = body + ev.line_to_str(x, 2)
            out.append(EventLoop(list(frames), val.src, body, where))
        for x in val.items:
            collect_loops(ev, x, pred, frames + [Frame('rep', src=val.src)], where, out, depth + 1)
    elif isinstance(val, AltL):
        for x in val.a:
            collect_loops(ev, x, pred, frames + [Frame('cond', cond=val.cond)], where, out, depth + 1)
        for x in val.b:
            collect_loops(ev, x, pred, frames + [Frame('cond', cond=c_not(val.cond))], where, out, depth + 1)
    elif isinstance(val, TAlt):
        collect_loops(ev, val.a, pred, frames + [Frame('cond', cond=val.cond)], where, out, depth + 1)
        collect_loops(ev, val.b, pred, frames + [Frame('cond', cond=c_not(val.cond))], where, out, depth + 1)
    elif isinstance(val, TObj):
        for k, v in val.fields.items():
            if k.startswith('__') or k in ('scope',):
                continue
            collect_loops(ev, v, pred, frames, f'{where}.{k}' if where else k, out, depth + 1)
    return out


def is_event_src(src: Src) -> bool:
    return isinstance(src.base, Sym) and src.base.path[-2:] == ('events', 'elements')


def is_port_src(src: Src) -> bool:
    return isinstance(src.base, Sym) and src.base.path[-1:] == ('ports',) or (
        isinstance(src.base, Sym) and src.base.path[-1:] in (('provides_ports',), ('requires_ports',)))


def walk(ev: Evaluator, val: Any, frames: List[Frame], where: str, out: List[EventLoop], texts: List[Tuple[List[Frame], TStr, str]],
         depth: int = 0):
    """Collect event loops and all rendered text (with their frames)."""
    if depth > 40 or val is None or val is TNone:
        return
    if isinstance(val, TStr):
        _walk_str(ev, val, frames, where, out, texts, depth)
    elif isinstance(val, (TList, TBlock)):
        for it in val.items:
            walk(ev, it, frames, where, out, texts, depth + 1)
    elif isinstance(val, RepL):
        if is_event_src(val.src):
            body = TStr()
            for x in val.items:
                body = body + ev.line_to_str(x, 2)
            out.append(EventLoop(list(frames), val.src, body, where))
        for x in val.items:
            walk(ev, x, frames + [Frame('rep', src=val.src)], where, out, texts, depth + 1)
    elif isinstance(val, AltL):
        for x in val.a:
            walk(ev, x, frames + [Frame('cond', cond=val.cond)], where, out, texts, depth + 1)
        for x in val.b:
            walk(ev, x, frames + [Frame('cond', cond=c_not(val.cond))], where, out, texts, depth + 1)
    elif isinstance(val, TAlt):
        walk(ev, val.a, frames + [Frame('cond', cond=val.cond)], where, out, texts, depth + 1)
        walk(ev, val.b, frames + [Frame('cond', cond=c_not(val.cond))], where, out, texts, depth + 1)
    elif isinstance(val, TObj):
        for k, v in val.fields.items():
            if k.startswith('__') or k in ('scope',):
                continue
            walk(ev, v, frames, f'{where}.{k}' if where else k, out, texts, depth + 1)


def _walk_str(ev, s: TStr, frames, where, out, texts, depth):
    texts.append((list(frames), s, where))
    for p in s.parts:
        if isinstance(p, AltS):
            _walk_str(ev, p.a, frames + [Frame('cond', cond=p.cond)], where, out, [], depth + 1)
            _walk_str(ev, p.b, frames + [Frame('cond', cond=c_not(p.cond))], where, out, [], depth + 1)
        elif isinstance(p, RepS):
            if is_event_src(p.src):
                out.append(EventLoop(list(frames), p.src, p.elem, where))
            _walk_str(ev, p.elem, frames + [Frame('rep', src=p.src)], where, out, [], depth + 1)


# ----------------------------------------------------------------------------------------------------------------
# C++ statement patterns
# ----------------------------------------------------------------------------------------------------------------
@dataclass
class MemberPath:
    obj: List[tuple]             # tokens denoting the object
    direction: str               # 'in' | 'out'
    event: tuple                 # token in the event position
    side: str = ''               # boundary | arbitered | arbitered-ro | encapsulee | client | current-client | ?
    port: Optional[Sym] = None   # the port object the path belongs to (accessor_target / port.name hole)

    def text(self) -> str:
        return f'{toks_text(self.obj)}.{self.direction}.{tok_text(self.event)}'


@dataclass
class Closure:
    captures: List[tuple]
    params: List[tuple]
    body: List[tuple]


@dataclass
class Link:
    where: str
    tokens: List[tuple]
    lhs: Optional[MemberPath]
    style: str                              # 'closure' | 'ref' | 'other'
    rhs: Optional[MemberPath] = None
    closure: Optional[Closure] = None

    def text(self) -> str:
        return toks_text(self.tokens)


def _sym_of(tok: tuple) -> Optional[Sym]:
    if tok[0] == 'hole':
        return tok[1].sym
    return None


def classify_obj(obj: List[tuple]) -> Tuple[str, Optional[Sym]]:
    """Which object does a token sequence denote?"""
    if not obj:
        return '?', None
    t0 = obj[0]
    s0 = _sym_of(t0)
    txt = toks_text(obj)
    if s0 is not None and s0.path[-1:] == ('accessor_target',):
        port = Sym(s0.root, s0.path[:-1], s0.typ)
        rest = obj[1:]
        if not rest:
            return 'boundary', port
        if [tok_text(t) for t in rest] == ['(', ')']:
            return 'arbitered', port
        if [tok_text(t) for t in rest] == ['.', 'Arbitered', '(', ')']:
            return 'arbitered-ro', port
        return '?', port
    if s0 is not None and s0.path[-2:] == ('member_var', 'name') and len(obj) == 3 and obj[1] == ('p', '.'):
        s2 = _sym_of(obj[2])
        if s2 is not None and s2.path[-2:] == ('port', 'name'):
            # <encapsulee member>.<port name>
            return 'encapsulee', Sym(s2.root, s2.path[:-3], s2.typ)
        return '?', None
    if obj == [('id', 'port')]:
        return 'client', None
    ot = [tok_text(t) for t in obj]
    if len(ot) >= 9 and obj[0][0] == 'id' and ot[1] in ('->', '.') and ot[2:] == ['value', '(', ')', '.', 'get', '(', ')', '.', 'dznPort']:
        return 'current-client', None
    return '?', None


def selection_alias(stmts: List[List[tuple]]):
    """The declaration through which an out-event lambda obtains the current selection:
       auto x = <target>.CurrentClient();          -> (x, 'holder', target token)   the lock-and-data object lives in x
       const auto& x / auto&& x = <target>.CurrentClient();  -> 'holder' (lifetime of the temporary is extended)
       auto& x / auto x = *<target>.CurrentClient();         -> 'released' (the temporary, and with it the lock, is gone
                                                                at the end of the declaration)
    None when the first statement is not such a declaration."""
    if not stmts:
        return None
    st = stmts[0]
    if ('p', '=') not in st:
        return None
    eq = st.index(('p', '='))
    decl = [tok_text(t) for t in st[:eq]]
    if 'auto' not in decl or st[eq - 1][0] != 'id':
        return None
    var = tok_text(st[eq - 1])
    rhs = st[eq + 1:]
    deref = bool(rhs) and rhs[0] == ('p', '*')
    if deref:
        rhs = rhs[1:]
    rtxt = [tok_text(t) for t in rhs]
    if not (rhs and rhs[0][0] == 'hole' and rtxt[1:] == ['.', 'CurrentClient', '(', ')']):
        return None
    return var, ('released' if deref else 'holder'), rhs[0]


def parse_member_path(toks: List[tuple]) -> Optional[MemberPath]:
    """<obj> . (in|out) . <event>   (the whole token list)"""
    if len(toks) >= 5 and toks[-2] == ('p', '.') and toks[-3][0] == 'id' and toks[-3][1] in ('in', 'out') \
            and toks[-4] == ('p', '.') and toks[-1][0] in ('hole', 'id', 'idh'):
        obj = toks[:-4]
        side, port = classify_obj(obj)
        return MemberPath(obj, toks[-3][1], toks[-1], side, port)
    return None


def find_member_calls(toks: List[tuple]) -> List[Tuple[MemberPath, List[tuple], int]]:
    """All call expressions  <obj>.(in|out).<event>(args)  inside a token list: (path, args tokens, index)."""
    out = []
    n = len(toks)
    for i in range(n - 3):
        if toks[i] == ('p', '.') and toks[i + 1][0] == 'id' and toks[i + 1][1] in ('in', 'out') and \
                toks[i + 2] == ('p', '.') and toks[i + 3][0] in ('hole', 'id', 'idh') and i + 4 < n and toks[i + 4] == ('p', '('):
            # object: walk back to the statement / expression boundary
            j = i - 1
            depth = 0
            while j >= 0:
                t = toks[j]
                if t == ('p', ')') and depth == 0:
                    # the ')' of `if (...)` / `while (...)` ends the previous construct, it is not part of the object
                    m, d2 = j, 0
                    while m >= 0:
                        if toks[m] == ('p', ')'):
                            d2 += 1
                        elif toks[m] == ('p', '('):
                            d2 -= 1
                            if d2 == 0:
                                break
                        m -= 1
                    if m > 0 and toks[m - 1][0] == 'id' and toks[m - 1][1] in ('if', 'while', 'for', 'switch'):
                        break
                if t[0] == 'p' and t[1] in ')]':
                    depth += 1
                elif t[0] == 'p' and t[1] in '([':
                    if depth == 0:
                        break
                    depth -= 1
                elif depth == 0 and (t[0] == 'p' and t[1] in ('{', '}', ';', ',', '=', '==', '!=') or
                                     (t[0] == 'id' and t[1] in ('return', 'auto', 'const', 'if', 'else'))):
                    break
                j -= 1
            obj = toks[j + 1:i]
            close = match_close(toks, i + 4)
            args = toks[i + 5:close] if close > 0 else []
            side, port = classify_obj(obj)
            out.append((MemberPath(obj, toks[i + 1][1], toks[i + 3], side, port), args, i))
    return out


def parse_closure(toks: List[tuple]) -> Optional[Closure]:
    """[captures] (params)? { body }"""
    if not toks or toks[0] != ('p', '['):
        return None
    c = match_close(toks, 0)
    if c < 0:
        return None
    captures = toks[1:c]
    k = c + 1
    params: List[tuple] = []
    # optional parameter list, possibly under an alternative ("(...)" only when there are formals)
    if k < len(toks) and toks[k][0] == 'alt':
        params = [toks[k]]
        k += 1
    elif k < len(toks) and toks[k] == ('p', '('):
        e = match_close(toks, k)
        params = toks[k + 1:e]
        k = e + 1
    if k < len(toks) and toks[k] == ('p', '{'):
        e = match_close(toks, k)
        if e == len(toks) - 1:
            return Closure(captures, params, toks[k + 1:e])
    return None


def parse_link(stmt: List[tuple], where: str) -> Optional[Link]:
    """<member path> = <closure> | std::ref(<member path>)"""
    eq = None
    depth = 0
    for i, t in enumerate(stmt):
        if t[0] == 'p' and t[1] in '([{':
            depth += 1
        elif t[0] == 'p' and t[1] in ')]}':
            depth -= 1
        elif t == ('p', '=') and depth == 0:
            eq = i
            break
    if eq is None:
        return None
    lhs = parse_member_path(stmt[:eq])
    if lhs is None:
        return None
    rhs = stmt[eq + 1:]
    if len(rhs) >= 5 and [tok_text(t) for t in rhs[:4]] == ['std', '::', 'ref', '('] and rhs[-1] == ('p', ')'):
        mp = parse_member_path(rhs[4:-1])
        return Link(where, stmt, lhs, 'ref', rhs=mp)
    cl = parse_closure(rhs)
    if cl is not None:
        return Link(where, stmt, lhs, 'closure', closure=cl)
    return Link(where, stmt, lhs, 'other')


def statements_of(s: TStr) -> List[List[tuple]]:
    return split_statements(lex(s))
