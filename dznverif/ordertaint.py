"""E3d - order / nondeterminism taint.

Abstract values (taint kinds):
  SET    a value whose iteration order depends on the hash seed / insertion history (a set)
  ODICT  a dict whose insertion order was produced by iterating a SET (lookup by key is fine)
  OSEQ   a list / tuple / str whose element order (or content) depends on such an iteration

Order-insensitive consumers keep a tainted value harmless: membership, truthiness, len, sorted,
min/max/sum/any/all, set algebra, equality, key lookup in an ODICT, dict.update/set.add.
Order-sensitive sinks: string formatting (f-string hole, str(), join, %), indexing, unpacking,
pop(), next(iter()), star-args, handing the value to code outside the package, returning the first
match from a loop over it.  `list()/tuple()` and comprehensions carry the taint on (OSEQ).

The analysis is interprocedural and context-insensitive: parameter taint (from tainted arguments),
return taint (summaries) and dataclass-field taint (from constructor arguments) are iterated to a
fixpoint over the whole package.  Sinks are reported only in functions reachable from the given
entry points.
"""
from __future__ import annotations

import ast
from typing import Any, Dict, List, Optional, Set, Tuple

from .model import Program, CallGraph, FuncInfo, ClassInfo, TypeEnv, iter_own_nodes, strip_opt

SET, ODICT, OSEQ = 'SET', 'ODICT', 'OSEQ'

CLEAN_BUILTINS = {'sorted', 'len', 'min', 'max', 'sum', 'any', 'all', 'bool', 'isinstance', 'set', 'frozenset',
                  'hasattr', 'type', 'callable', 'issubclass'}
CARRY_BUILTINS = {'list', 'tuple', 'reversed', 'enumerate', 'zip', 'iter', 'map', 'filter', 'dict', 'deepcopy',
                  'copy'}
SET_METHODS_CLEAN = {'add', 'update', 'discard', 'remove', 'clear', 'issubset', 'issuperset', 'isdisjoint',
                     'union', 'intersection', 'difference', 'symmetric_difference', 'copy',
                     'intersection_update', 'difference_update', 'symmetric_difference_update', '__contains__'}
DICT_METHODS_CLEAN = {'get', 'update', 'setdefault', 'pop', 'clear', 'copy', '__contains__'}
DICT_METHODS_ORDER = {'items', 'keys', 'values', 'popitem'}


def _type_has_set(t: tuple) -> bool:
    t = strip_opt(t)
    if t[0] == 'set':
        return True
    if t[0] == 'union':
        return any(_type_has_set(x) for x in t[1])
    return False


def join_kind(a: Optional[str], b: Optional[str]) -> Optional[str]:
    if a is None:
        return b
    if b is None:
        return a
    if a == b:
        return a
    return OSEQ


class OrderTaint:
    def __init__(self, prog: Program, cg: CallGraph):
        self.prog = prog
        self.cg = cg
        self.param_taint: Dict[Tuple[str, str], str] = {}
        self.ret_taint: Dict[str, str] = {}
        self.field_taint: Dict[Tuple[str, str], str] = {}
        self.local_taint: Dict[str, Dict[str, str]] = {}
        self.sinks: List[Tuple[FuncInfo, ast.AST, str, str]] = []     # (fn, node, kind, why)
        self.diagnostics: List[Tuple[FuncInfo, ast.AST, str]] = []
        self.consumers: List[Tuple[FuncInfo, ast.AST, str, str]] = []  # harmless consumers (evidence)
        self.sources: List[Tuple[FuncInfo, ast.AST, str]] = []
        self._changed = True
        # reasoned exceptions: callback (fn, call_node) -> reason or None; consulted for set.pop()
        self.justify = lambda fn, node: None
        self.justified: List[Tuple[FuncInfo, ast.AST, str]] = []

    # -- fixpoint --------------------------------------------------------------------------
    def solve(self, max_iter: int = 12):
        fns = self.prog.all_functions()
        it = 0
        while self._changed and it < max_iter:
            self._changed = False
            it += 1
            for fn in fns:
                self._analyse(fn, collect=False)
        for fn in fns:
            self._analyse(fn, collect=True)
        return it

    def _set(self, table: dict, key, kind: Optional[str]):
        if kind is None:
            return
        new = join_kind(table.get(key), kind)
        if table.get(key) != new:
            table[key] = new
            self._changed = True

    # -- per function ----------------------------------------------------------------------
    def _analyse(self, fn: FuncInfo, collect: bool):
        env = self.cg.env(fn)
        loc = self.local_taint.setdefault(fn.fq, {})
        prog = self.prog

        def local_set(name, kind):
            if kind is None:
                return
            new = join_kind(loc.get(name), kind)
            if loc.get(name) != new:
                loc[name] = new
                self._changed = True

        # parameters
        for a in fn.params():
            k = self.param_taint.get((fn.fq, a.arg))
            if k:
                local_set(a.arg, k)
        # enclosing function's locals are visible
        outer = fn.parent
        while outer is not None:
            for nm, k in self.local_taint.get(outer.fq, {}).items():
                if nm not in loc:
                    local_set(nm, k)
            outer = outer.parent

        def taint(e: ast.AST) -> Optional[str]:
            if isinstance(e, ast.Name):
                if e.id in loc:
                    return loc[e.id]
                return SET if _type_has_set(env.type_of(e)) else None
            if isinstance(e, (ast.Set, ast.SetComp)):
                return SET
            if isinstance(e, (ast.ListComp, ast.GeneratorExp)):
                for g in e.generators:
                    if taint(g.iter) in (SET, ODICT, OSEQ):
                        return OSEQ
                return taint(e.elt) and OSEQ
            if isinstance(e, ast.DictComp):
                for g in e.generators:
                    if taint(g.iter):
                        return ODICT
                return None
            if isinstance(e, (ast.List, ast.Tuple)):
                return OSEQ if any(taint(x) for x in e.elts) else None
            if isinstance(e, ast.Dict):
                return OSEQ if any(taint(v) for v in e.values if v is not None) else None
            if isinstance(e, ast.Attribute):
                bt = strip_opt(env.type_of(e.value))
                ts = bt[1] if bt[0] == 'union' else [bt]
                for t in ts:
                    t = strip_opt(t)
                    if t[0] == 'cls':
                        k = self.field_taint.get((t[1], e.attr))
                        if k:
                            return k
                        c = prog.classes.get(t[1])
                        m = prog.lookup_method(c, e.attr) if c else None
                        if m is not None and m.is_property and self.ret_taint.get(m.fq):
                            return self.ret_taint[m.fq]
                if _type_has_set(env.type_of(e)):
                    return SET
                return None
            if isinstance(e, ast.Call):
                return call_taint(e)
            if isinstance(e, ast.BinOp):
                l, r = taint(e.left), taint(e.right)
                if l == SET or r == SET:
                    if isinstance(e.op, (ast.BitOr, ast.BitAnd, ast.Sub, ast.BitXor)):
                        return SET
                return join_kind(l, r) and (OSEQ if (l or r) != SET else SET)
            if isinstance(e, ast.IfExp):
                return join_kind(taint(e.body), taint(e.orelse))
            if isinstance(e, ast.BoolOp):
                k = None
                for v in e.values:
                    k = join_kind(k, taint(v))
                return k
            if isinstance(e, ast.Subscript):
                k = taint(e.value)
                if k and isinstance(e.slice, ast.Slice):
                    return OSEQ
                return None  # indexing an ODICT by key is clean; indexing SET/OSEQ is reported as sink
            if isinstance(e, (ast.JoinedStr, ast.FormattedValue)):
                return None     # formatting is a sink, reported at the hole; the text is not re-reported
            if isinstance(e, ast.Starred):
                return taint(e.value)
            if isinstance(e, ast.NamedExpr):
                return taint(e.value)
            if _is_expr(e) and _type_has_set(env.type_of(e)):
                return SET
            return None

        def call_taint(c: ast.Call) -> Optional[str]:
            f = c.func
            if isinstance(f, ast.Name) and prog.resolve_name(fn.module, f.id) is None and f.id not in env.vars:
                if f.id in CLEAN_BUILTINS:
                    return SET if f.id in ('set', 'frozenset') else None
                if f.id in CARRY_BUILTINS:
                    ks = [taint(a) for a in c.args]
                    if any(ks):
                        return ODICT if f.id == 'dict' and ks[0] == ODICT else \
                            (ks[0] if f.id in ('deepcopy', 'copy') else OSEQ)
                    return None
                if f.id in ('str', 'repr', 'format'):
                    return None  # sink, reported at the argument
                if f.id == 'next':
                    return OSEQ if any(taint(a) for a in c.args) else None
            if isinstance(f, ast.Attribute) and f.attr == 'fromkeys' and isinstance(f.value, ast.Name) and f.value.id == 'dict' and \
                    prog.resolve_name(fn.module, 'dict') is None and 'dict' not in env.vars and c.args:
                # dict.fromkeys(keys, v): a dict whose insertion order is the iteration order of `keys`
                return ODICT if taint(c.args[0]) else None
            if isinstance(f, ast.Attribute):
                if f.attr == 'join':
                    return None  # sink, reported at the argument
                base_k = taint(f.value)
                if base_k == SET and f.attr in ('union', 'intersection', 'difference', 'symmetric_difference', 'copy'):
                    return SET
                if base_k == ODICT and f.attr in DICT_METHODS_ORDER:
                    return OSEQ
                if base_k == ODICT and f.attr == 'copy':
                    return ODICT
                if base_k == SET and f.attr == 'pop':
                    return None if self.justify(fn, c) else OSEQ
                if base_k == OSEQ and f.attr in ('copy', 'strip', 'lower', 'upper', 'format', 'replace', 'split',
                                                 'splitlines', 'rstrip', 'lstrip', 'encode', 'hexdigest', 'digest'):
                    return OSEQ
            k = None
            for callee in env.resolve_call(c):
                if isinstance(callee, FuncInfo):
                    if callee.name in ('__init__', '__post_init__'):
                        continue
                    k = join_kind(k, self.ret_taint.get(callee.fq))
            if _type_has_set(env.type_of(c)):
                k = join_kind(k, SET)
            return k

        # ---- propagate through statements --------------------------------------------------
        loops_over_taint: List[Tuple[ast.AST, str]] = []
        for n in iter_own_nodes(fn.node):
            if isinstance(n, ast.Assign):
                k = taint(n.value)
                for t in n.targets:
                    if isinstance(t, (ast.Tuple, ast.List)) and isinstance(n.value, (ast.Tuple, ast.List)) and \
                            len(t.elts) == len(n.value.elts) and not any(isinstance(x, ast.Starred) for x in t.elts + n.value.elts):
                        # unpacking a display: positions are fixed, every target gets the kind of its own element
                        for te, ve in zip(t.elts, n.value.elts):
                            self._bind(te, taint(ve), local_set, fn, env)
                        continue
                    self._bind(t, k, local_set, fn, env)
            elif isinstance(n, ast.AnnAssign) and n.value is not None:
                self._bind(n.target, taint(n.value), local_set, fn, env)
            elif isinstance(n, ast.AugAssign):
                k = taint(n.value)
                if k and isinstance(n.target, ast.Name):
                    if k == SET and _type_has_set(env.type_of(n.target)):
                        local_set(n.target.id, SET)
                    else:
                        local_set(n.target.id, OSEQ)
            elif isinstance(n, (ast.For, ast.AsyncFor)):
                k = taint(n.iter)
                if k:
                    loops_over_taint.append((n, k))
            elif isinstance(n, ast.Return) and n.value is not None:
                self._set(self.ret_taint, fn.fq, taint(n.value))
            elif isinstance(n, ast.Call):
                self._propagate_call(n, fn, env, taint, local_set)

        # loops over tainted iterables: what the body builds becomes order dependent
        for loop, _k in loops_over_taint:
            for s in ast.walk(loop):
                if isinstance(s, ast.Call) and isinstance(s.func, ast.Attribute) and isinstance(s.func.value, ast.Name):
                    nm, meth = s.func.value.id, s.func.attr
                    if meth in ('append', 'extend', 'insert'):
                        local_set(nm, OSEQ)
                    elif meth in ('update', 'setdefault') and not _type_has_set(env.type_of(s.func.value)):
                        local_set(nm, ODICT)
                elif isinstance(s, (ast.Assign, ast.AugAssign)):
                    tgts = s.targets if isinstance(s, ast.Assign) else [s.target]
                    for t in tgts:
                        if isinstance(t, ast.Subscript) and isinstance(t.value, ast.Name):
                            local_set(t.value.id, ODICT)
                        elif isinstance(t, ast.Name) and isinstance(s, ast.AugAssign):
                            if not _type_has_set(env.type_of(t)):
                                local_set(t.id, OSEQ)
                        elif isinstance(t, ast.Name) and t is not loop.target and s is not loop:
                            # plain re-assignment in the loop: last iteration wins -> order dependent
                            # unless the variable is loop-local (defined and used inside one iteration)
                            if self._used_after(fn, loop, t.id):
                                local_set(t.id, OSEQ)

        if not collect:
            return
        self._collect_sinks(fn, env, taint, loops_over_taint)

    def _used_after(self, fn: FuncInfo, loop: ast.AST, name: str) -> bool:
        end = getattr(loop, 'end_lineno', loop.lineno)
        for n in iter_own_nodes(fn.node):
            if isinstance(n, ast.Name) and n.id == name and isinstance(n.ctx, ast.Load) and n.lineno > end:
                return True
        return False

    def _bind(self, tgt, kind, local_set, fn, env):
        if kind is None:
            return
        if isinstance(tgt, ast.Name):
            local_set(tgt.id, kind)
        elif isinstance(tgt, (ast.Tuple, ast.List)):
            for e in tgt.elts:
                self._bind(e, OSEQ, local_set, fn, env)
        elif isinstance(tgt, ast.Attribute):
            bt = strip_opt(env.type_of(tgt.value))
            if bt[0] == 'cls':
                self._set(self.field_taint, (bt[1], tgt.attr), kind)
        elif isinstance(tgt, ast.Subscript) and isinstance(tgt.value, ast.Name):
            local_set(tgt.value.id, OSEQ if kind else None)

    def _propagate_call(self, c: ast.Call, fn: FuncInfo, env: TypeEnv, taint, local_set):
        callees = env.resolve_call(c)
        # container.append(tainted) / extend
        if isinstance(c.func, ast.Attribute) and isinstance(c.func.value, ast.Name) and \
                c.func.attr in ('append', 'extend', 'insert', 'add', 'update'):
            if any(taint(a) for a in c.args):
                recv_t = env.type_of(c.func.value)
                if _type_has_set(recv_t):
                    local_set(c.func.value.id, SET)
                elif c.func.attr == 'update' and strip_opt(recv_t)[0] == 'dict':
                    ks = [taint(a) for a in c.args]
                    local_set(c.func.value.id, ODICT if all(k in (ODICT, None) for k in ks) else OSEQ)
                else:
                    local_set(c.func.value.id, OSEQ)
        for callee in callees:
            if isinstance(callee, tuple) and callee[0] == 'ctor':
                cls: ClassInfo = callee[1]
                if cls.is_dataclass:
                    names = list(self.prog.class_fields(cls).keys())
                    for i, a in enumerate(c.args):
                        if i < len(names):
                            self._set(self.field_taint, (cls.fq, names[i]), taint(a))
                    for kw in c.keywords:
                        if kw.arg:
                            self._set(self.field_taint, (cls.fq, kw.arg), taint(kw.value))
            if isinstance(callee, FuncInfo):
                params = callee.params()
                offset = 1 if (callee.cls is not None and not callee.is_static and callee.parent is None
                               and params and params[0].arg in ('self', 'cls')) else 0
                # bound-method receiver taint -> self is not tracked (fields are)
                for i, a in enumerate(c.args):
                    j = i + offset
                    if isinstance(a, ast.Starred):
                        continue
                    if j < len(params):
                        self._set(self.param_taint, (callee.fq, params[j].arg), taint(a))
                for kw in c.keywords:
                    if kw.arg and any(p.arg == kw.arg for p in params):
                        self._set(self.param_taint, (callee.fq, kw.arg), taint(kw.value))

    # -- sinks ------------------------------------------------------------------------------
    def _collect_sinks(self, fn: FuncInfo, env: TypeEnv, taint, loops):
        prog = self.prog

        def in_diagnostic(node) -> bool:
            p = prog.parent(node)
            while p is not None and not isinstance(p, (ast.FunctionDef, ast.AsyncFunctionDef)):
                if isinstance(p, ast.Raise):
                    return True
                if isinstance(p, ast.Call) and isinstance(p.func, ast.Name) and p.func.id == 'print':
                    return True
                if isinstance(p, ast.Call) and isinstance(p.func, ast.Attribute) and p.func.attr == 'log':
                    return True
                p = prog.parent(p)
            return False

        def sink(node, kind, why):
            if in_diagnostic(node):
                self.diagnostics.append((fn, node, why))
            else:
                self.sinks.append((fn, node, kind, why))

        def ok(node, kind, why):
            self.consumers.append((fn, node, kind, why))

        for n in iter_own_nodes(fn.node):
            if not _is_expr(n) or isinstance(getattr(n, 'ctx', None), (ast.Store, ast.Del)):
                continue
            k = taint(n)
            if not k:
                continue
            p = prog.parent(n)
            # -- classify by the consumer ---------------------------------------------------
            if isinstance(p, ast.FormattedValue):
                sink(n, k, 'formatted into a string (f-string hole)')
            elif isinstance(p, ast.Call):
                f = p.func
                if n is f:
                    continue
                fname = f.id if isinstance(f, ast.Name) else None
                is_builtin = fname is not None and prog.resolve_name(fn.module, fname) is None \
                    and fname not in env.vars
                if isinstance(f, ast.Attribute) and f.value is n:
                    continue
                if is_builtin and fname in CLEAN_BUILTINS:
                    ok(n, k, f'{fname}() is order-insensitive')
                elif is_builtin and fname in CARRY_BUILTINS:
                    ok(n, k, f'{fname}() carries the order on (result is tracked)')
                elif is_builtin and fname in ('str', 'repr', 'format', 'print'):
                    sink(n, k, f'{fname}() of an order-dependent value')
                elif is_builtin and fname == 'next':
                    sink(n, k, 'next() picks the first element of an unordered iteration')
                elif isinstance(f, ast.Attribute) and f.attr == 'fromkeys' and isinstance(f.value, ast.Name) and f.value.id == 'dict' \
                        and prog.resolve_name(fn.module, 'dict') is None and 'dict' not in env.vars:
                    ok(n, k, 'dict.fromkeys() carries the order on as insertion order (the dict is tracked)')
                elif isinstance(f, ast.Attribute) and f.attr == 'join':
                    sink(n, k, 'joined into a string')
                elif isinstance(f, ast.Attribute) and f.attr in ('append', 'extend', 'insert', 'add', 'update',
                                                                 'setdefault'):
                    ok(n, k, 'stored in a local container (container is tracked)')
                else:
                    callees = env.resolve_call(p)
                    if any(isinstance(c, FuncInfo) or (isinstance(c, tuple) and c[0] == 'ctor') for c in callees):
                        ok(n, k, 'passed to package code (parameter / field taint is tracked)')
                    elif k == SET and all(isinstance(c, tuple) and c[0] == 'builtin' for c in callees) and \
                            isinstance(f, ast.Attribute):
                        ok(n, k, 'argument of a container method')
                    else:
                        sink(n, k, f'handed to code outside the package: {ast.unparse(f)}')
            elif isinstance(p, ast.Attribute) and p.value is n:
                gp = prog.parent(p)
                if isinstance(gp, ast.Call) and gp.func is p:
                    meth = p.attr
                    if k == SET and meth in SET_METHODS_CLEAN:
                        ok(n, k, f'set.{meth}() is order-insensitive')
                    elif k == SET and meth == 'pop':
                        reason = self.justify(fn, gp)
                        if reason:
                            self.justified.append((fn, gp, reason))
                        else:
                            sink(n, k, 'set.pop() returns an arbitrary element')
                    elif k == ODICT and meth in DICT_METHODS_CLEAN:
                        ok(n, k, f'dict.{meth}() by key is order-insensitive')
                    elif k == ODICT and meth in DICT_METHODS_ORDER:
                        ok(n, k, f'dict.{meth}() exposes insertion order (result is tracked)')
                    elif k == OSEQ and meth in ('append', 'extend', 'insert', 'copy', 'count', 'index', 'sort'):
                        ok(n, k, 'list method (list stays tracked)')
                    elif k == OSEQ:
                        ok(n, k, f'method {meth} on order-dependent value (result is tracked)')
                    else:
                        ok(n, k, f'method {meth}')
                else:
                    ok(n, k, 'attribute of the value')
            elif isinstance(p, ast.Compare):
                ok(n, k, 'membership / equality test')
            elif isinstance(p, (ast.If, ast.While, ast.IfExp)) and getattr(p, 'test', None) is n:
                ok(n, k, 'truthiness test')
            elif isinstance(p, ast.IfExp):
                ok(n, k, 'conditional expression arm (result is tracked)')
            elif isinstance(p, ast.UnaryOp) and isinstance(p.op, ast.Not):
                ok(n, k, 'truthiness test')
            elif isinstance(p, ast.BoolOp):
                ok(n, k, 'boolean operand (result is tracked)')
            elif isinstance(p, ast.BinOp):
                if k == SET and isinstance(p.op, (ast.BitOr, ast.BitAnd, ast.Sub, ast.BitXor)):
                    ok(n, k, 'set algebra')
                elif isinstance(p.op, ast.Mod) and p.right is n:
                    sink(n, k, '%-formatted into a string')
                else:
                    ok(n, k, 'operand (result is tracked)')
            elif isinstance(p, ast.Subscript) and p.value is n:
                if isinstance(p.slice, ast.Slice):
                    ok(n, k, 'slice (result is tracked)')
                elif k == ODICT or strip_opt(env.type_of(n))[0] == 'dict' or isinstance(n, ast.Dict):
                    ok(n, k, 'lookup by key')
                else:
                    sink(n, k, 'indexed by position')
            elif isinstance(p, ast.Subscript):
                ok(n, k, 'used as a key')
            elif isinstance(p, (ast.For, ast.AsyncFor)) and p.iter is n:
                self._loop_sinks(fn, p, k, sink, ok)
            elif isinstance(p, ast.comprehension) and p.iter is n:
                comp = prog.parent(p)
                if isinstance(comp, (ast.SetComp,)):
                    ok(n, k, 'set comprehension (unordered result)')
                else:
                    ok(n, k, 'comprehension (result is tracked as order-dependent)')
            elif isinstance(p, ast.Starred):
                sink(n, k, 'star-unpacked')
            elif isinstance(p, ast.Assign) and p.value is n:
                if isinstance(n, (ast.Tuple, ast.List)) and all(
                        isinstance(t, (ast.Tuple, ast.List)) and len(t.elts) == len(n.elts) for t in p.targets):
                    ok(n, k, 'display unpacked element by element (positions are fixed)')
                elif any(isinstance(t, (ast.Tuple, ast.List)) for t in p.targets):
                    sink(n, k, 'unpacked by position')
                else:
                    ok(n, k, 'assigned (target is tracked)')
            elif isinstance(p, (ast.Return, ast.AnnAssign, ast.AugAssign, ast.keyword, ast.List, ast.Tuple, ast.Dict,
                                ast.Set, ast.ListComp, ast.SetComp, ast.GeneratorExp, ast.DictComp, ast.Expr,
                                ast.JoinedStr, ast.NamedExpr, ast.Yield, ast.Lambda, ast.withitem, ast.Assert)):
                if isinstance(p, ast.Yield):
                    sink(n, k, 'yielded')
                else:
                    ok(n, k, 'carried on (tracked)')
            elif isinstance(p, ast.Raise):
                self.diagnostics.append((fn, n, 'raised'))
            elif isinstance(p, ast.arguments):
                ok(n, k, 'default value of a parameter (the parameter is tracked)')
            else:
                sink(n, k, f'unmodelled consumer {type(p).__name__}')
            if isinstance(n, (ast.Name, ast.Attribute, ast.Call)) and k == SET:
                self.sources.append((fn, n, k))

    def _loop_sinks(self, fn, loop: ast.For, k, sink, ok):
        """A `for` over an order-tainted iterable: first-match exits are order dependent."""
        bad = False
        def owner_loop(node):
            p_ = self.prog.parent(node)
            while p_ is not None and not isinstance(p_, (ast.For, ast.AsyncFor, ast.While)):
                p_ = self.prog.parent(p_)
            return p_

        for s in ast.walk(loop):
            if s is loop:
                continue
            if isinstance(s, ast.Break) and owner_loop(s) is not loop:
                continue            # leaves an inner loop, not the one over the unordered value
            if isinstance(s, ast.Break):
                sink(loop.iter, k, 'loop over an unordered value leaves at the first match (break)')
                bad = True
            elif isinstance(s, ast.Return):
                if s.value is not None and not isinstance(s.value, ast.Constant):
                    sink(loop.iter, k, 'loop over an unordered value returns at the first match')
                    bad = True
            elif isinstance(s, (ast.Yield, ast.YieldFrom)):
                sink(loop.iter, k, 'loop over an unordered value yields in iteration order')
                bad = True
        if not bad:
            ok(loop.iter, k, 'iterated; everything the body builds is tracked as order-dependent')


def _is_expr(n) -> bool:
    return isinstance(n, ast.expr)
