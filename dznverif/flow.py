"""E2 - syntax-directed control flow facts for structured Python.

The package under analysis uses only structured control flow (no generators with send, no
try/finally tricks, a single `try`).  For such code dominance is decided exactly by the block
structure: a statement dominates every later sibling statement and everything nested in those,
and an `if` whose body always leaves the block (raise/return/continue/break) makes the negated
test a path condition for all later siblings.  `path_conditions` collects the branch conditions
known to hold at a node; `dominating_stmts` lists the statements that are executed before a node on
every path from the function entry.
"""
from __future__ import annotations

import ast
from typing import Callable, Iterable, List, Optional, Tuple

from .model import Program

EXITS = (ast.Raise, ast.Return, ast.Continue, ast.Break)


def always_exits(stmts: List[ast.stmt]) -> bool:
    """True when control never falls off the end of this statement list."""
    for s in stmts:
        if isinstance(s, EXITS) or getattr(s, '_noreturn', False):
            return True
        if isinstance(s, ast.If) and s.orelse and always_exits(s.body) and always_exits(s.orelse):
            return True
        if isinstance(s, ast.With) and always_exits(s.body):
            return True
        if isinstance(s, ast.Try):
            body_exit = always_exits(s.body) or (s.orelse and always_exits(s.orelse))
            if s.finalbody and always_exits(s.finalbody):
                return True
            if body_exit and all(always_exits(h.body) for h in s.handlers):
                return True
    return False


def always_raises(stmts: List[ast.stmt]) -> bool:
    for s in stmts:
        if isinstance(s, ast.Raise) or getattr(s, '_noreturn', False):      # (a call of a helper that never returns: model N23)
            return True
        if isinstance(s, (ast.Return, ast.Continue, ast.Break)):
            return False
        if isinstance(s, ast.If) and s.orelse and always_raises(s.body) and always_raises(s.orelse):
            return True
    return False


def _blocks_of(node: ast.AST) -> Iterable[Tuple[str, List[ast.stmt]]]:
    for name in ('body', 'orelse', 'finalbody'):
        blk = getattr(node, name, None)
        if isinstance(blk, list) and blk and isinstance(blk[0], ast.stmt):
            yield name, blk
    if isinstance(node, ast.Try):
        for h in node.handlers:
            yield 'handler', h.body


def names_in(expr: ast.AST) -> set:
    return {n.id for n in ast.walk(expr) if isinstance(n, ast.Name)}


def assigned_names(stmts: Iterable[ast.AST]) -> set:
    out = set()
    for s in stmts:
        for n in ast.walk(s):
            if isinstance(n, ast.Name) and isinstance(n.ctx, (ast.Store, ast.Del)):
                out.add(n.id)
            elif isinstance(n, ast.AugAssign) and isinstance(n.target, ast.Name):
                out.add(n.target.id)
    return out


class Flow:
    def __init__(self, prog: Program):
        self.prog = prog

    # ------------------------------------------------------------------------------------
    def chain(self, node: ast.AST, stop: Optional[ast.AST] = None) -> List[ast.AST]:
        """node, parent, grandparent ... up to (excluding) the enclosing function or `stop`."""
        out = [node]
        p = self.prog.parent(node)
        # lambdas are treated as transparent (the package only uses them for immediate evaluation)
        while p is not None and p is not stop and not isinstance(p, (ast.FunctionDef, ast.AsyncFunctionDef,
                                                                      ast.Module, ast.ClassDef)):
            out.append(p)
            p = self.prog.parent(p)
        if p is not None and isinstance(p, (ast.FunctionDef, ast.AsyncFunctionDef)):
            out.append(p)
        return out

    def path_conditions(self, node: ast.AST) -> List[Tuple[ast.expr, bool]]:
        """Branch conditions (expr, polarity) that hold whenever `node` is evaluated."""
        conds: List[Tuple[ast.expr, bool]] = []
        chain = self.chain(node)
        for child, parent in zip(chain, chain[1:]):
            # expression-level guards
            if isinstance(parent, ast.IfExp):
                if child is parent.body:
                    conds.append((parent.test, True))
                elif child is parent.orelse:
                    conds.append((parent.test, False))
            elif isinstance(parent, ast.BoolOp):
                idx = next((i for i, v in enumerate(parent.values) if v is child), None)
                if idx:
                    pol = isinstance(parent.op, ast.And)
                    conds.extend((v, pol) for v in parent.values[:idx])
            elif isinstance(parent, (ast.ListComp, ast.SetComp, ast.GeneratorExp, ast.DictComp)):
                if not any(child is g for g in parent.generators):
                    for g in parent.generators:
                        conds.extend((c, True) for c in g.ifs)
                        conds.extend((c, True) for c in self._filter_of_source(chain[-1], g.iter, g.target))
                else:
                    for g in parent.generators:
                        if g is child:
                            break
                        conds.extend((c, True) for c in g.ifs)
                        conds.extend((c, True) for c in self._filter_of_source(chain[-1], g.iter, g.target))
            elif isinstance(parent, ast.comprehension):
                if child in parent.ifs:
                    idx = parent.ifs.index(child)
                    conds.extend((c, True) for c in parent.ifs[:idx])
            # statement-level guards
            elif isinstance(parent, ast.If):
                if child in parent.body:
                    conds.append((parent.test, True))
                elif child in parent.orelse:
                    conds.append((parent.test, False))
            elif isinstance(parent, ast.While):
                if child in parent.body:
                    conds.append((parent.test, True))
            elif isinstance(parent, ast.For):
                if child in parent.body:
                    conds.extend((c, True) for c in self._filter_of_source(chain[-1], parent.iter, parent.target))
            # earlier siblings that leave the block
            for _nm, blk in _blocks_of(parent):
                if child in blk:
                    idx = blk.index(child)
                    for j, prev in enumerate(blk[:idx]):
                        between = blk[j + 1:idx]
                        if isinstance(prev, ast.If):
                            killed = assigned_names(between)
                            if names_in(prev.test) & killed:
                                continue
                            if always_exits(prev.body) and not always_exits(prev.orelse or []):
                                conds.append((prev.test, False))
                            elif prev.orelse and always_exits(prev.orelse) and not always_exits(prev.body):
                                conds.append((prev.test, True))
                        elif isinstance(prev, ast.Assert):
                            if not (names_in(prev.test) & assigned_names(between)):
                                conds.append((prev.test, True))
        return conds

    def _filter_of_source(self, fnnode: ast.AST, it: ast.expr, target: ast.expr) -> List[ast.expr]:
        """`for v in N` / `.. for v in N` where N is a local bound exactly once, to `[w for w in X if C(w)]` (the elements
        themselves, filtered) and never touched otherwise: C(v) holds for every v.  The conditions, with w renamed to v."""
        if not (isinstance(it, ast.Name) and isinstance(target, ast.Name) and isinstance(fnnode, (ast.FunctionDef, ast.AsyncFunctionDef))):
            return []
        cache = self.__dict__.setdefault('_filter_cache', {})
        key = (id(fnnode), it.id, target.id)
        if key in cache:
            return cache[key]
        cache[key] = []
        stores = [n for n in ast.walk(fnnode) if isinstance(n, ast.Name) and n.id == it.id and isinstance(n.ctx, (ast.Store, ast.Del))]
        if it.id in [a.arg for a in fnnode.args.posonlyargs + fnnode.args.args + fnnode.args.kwonlyargs] or len(stores) != 1:
            return []
        asg = self.prog.parent(stores[0])
        if not (isinstance(asg, ast.Assign) and len(asg.targets) == 1 and asg.targets[0] is stores[0] and isinstance(asg.value, ast.ListComp)):
            return []
        lc = asg.value
        if len(lc.generators) != 1 or not isinstance(lc.generators[0].target, ast.Name) or not isinstance(lc.elt, ast.Name) or \
                lc.elt.id != lc.generators[0].target.id or not lc.generators[0].ifs:
            return []
        # the list is only read afterwards
        for n in ast.walk(fnnode):
            if isinstance(n, ast.Name) and n.id == it.id and isinstance(n.ctx, ast.Load):
                par = self.prog.parent(n)
                if isinstance(par, ast.Attribute) and par.attr in ('append', 'extend', 'insert', 'pop', 'remove', 'clear', 'sort', 'reverse',
                                                                  '__setitem__', '__delitem__', '__iadd__'):
                    return []
                if isinstance(par, ast.Subscript) and isinstance(par.ctx, (ast.Store, ast.Del)):
                    return []
                if isinstance(par, ast.AugAssign) and par.target is n:
                    return []
        import copy
        w = lc.elt.id
        out = []
        for c in lc.generators[0].ifs:
            c2 = copy.deepcopy(c)
            for x in ast.walk(c2):
                if isinstance(x, ast.Name) and x.id == w:
                    x.id = target.id
            out.append(c2)
        cache[key] = out
        return out

    def dominating_stmts(self, node: ast.AST) -> List[ast.stmt]:
        """Statements executed on every path before `node` (earlier siblings at each nesting level,
        outermost first)."""
        out: List[ast.stmt] = []
        chain = self.chain(node)
        for child, parent in reversed(list(zip(chain, chain[1:]))):
            for _nm, blk in _blocks_of(parent):
                if child in blk:
                    out.extend(blk[:blk.index(child)])
        return out

    def unconditional(self, node: ast.AST) -> bool:
        """The node is evaluated exactly once whenever its function runs to that point: no enclosing branch, loop,
        handler, conditional expression, short-circuit operand or comprehension."""
        chain = self.chain(node)
        for child, parent in zip(chain, chain[1:]):
            if isinstance(parent, (ast.If, ast.For, ast.AsyncFor, ast.While, ast.Try, ast.ExceptHandler, ast.With,
                                   ast.ListComp, ast.SetComp, ast.DictComp, ast.GeneratorExp, ast.comprehension,
                                   ast.Lambda, ast.Match)) and not (isinstance(parent, ast.With)):
                if isinstance(parent, (ast.If, ast.While)) and child is parent.test:
                    continue
                if isinstance(parent, (ast.For, ast.AsyncFor)) and child is parent.iter:
                    continue
                return False
            if isinstance(parent, ast.IfExp) and child is not parent.test:
                return False
            if isinstance(parent, ast.BoolOp) and child is not parent.values[0]:
                return False
        return True

    def enclosing_stmt(self, node: ast.AST) -> ast.stmt:
        n = node
        while n is not None and not isinstance(n, ast.stmt):
            n = self.prog.parent(n)
        return n

    def enclosing(self, node: ast.AST, kinds) -> Optional[ast.AST]:
        p = self.prog.parent(node)
        while p is not None and not isinstance(p, (ast.FunctionDef, ast.AsyncFunctionDef, ast.Module)):
            if isinstance(p, kinds):
                return p
            p = self.prog.parent(p)
        return None

    def in_loop(self, node: ast.AST) -> bool:
        return self.enclosing(node, (ast.For, ast.While, ast.ListComp, ast.SetComp, ast.GeneratorExp,
                                     ast.DictComp)) is not None


def same_expr(a: ast.AST, b: ast.AST) -> bool:
    return ast.dump(a) == ast.dump(b)


def negate_pol(conds, pol=True):
    return [(c, p if pol else not p) for c, p in conds]


def split_cond(cond: ast.expr, pol: bool) -> List[Tuple[ast.expr, bool]]:
    """Decompose a condition into atomic facts: (a and b, True) -> a,b ; (a or b, False) -> !a,!b ;
    (not a, p) -> (a, !p)."""
    if isinstance(cond, ast.UnaryOp) and isinstance(cond.op, ast.Not):
        return split_cond(cond.operand, not pol)
    if isinstance(cond, ast.BoolOp):
        if (isinstance(cond.op, ast.And) and pol) or (isinstance(cond.op, ast.Or) and not pol):
            out = []
            for v in cond.values:
                out.extend(split_cond(v, pol))
            return out
    return [(cond, pol)]


def atomic_facts(conds: List[Tuple[ast.expr, bool]]) -> List[Tuple[ast.expr, bool]]:
    out = []
    for c, p in conds:
        out.extend(split_cond(c, p))
    return out
