"""dznverif - repository-specific static analysis of mikeftrict/dznpy (see /verif/DESIGN.md)."""
