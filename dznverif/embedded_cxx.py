"""E5 - analysis of the C++ that is embedded in the generator as string constants (the six support headers).

The header texts are obtained by constant-folding `create_header(prefix)` of each support module with the E4
evaluator (nothing is imported or run), written to a scratch directory and handed to the clang front end:
  * -fsyntax-only type checking (alone / twice / together / two prefixes),
  * explicit instantiation against a mock port type (thorough),
  * compile-fail witnesses with a passing twin (thorough),
  * -ast-dump=json of the instantiated templates for guard / dominance rules on the member functions.
The mock of the Dezyne runtime surface (/verif/cxx/mock) is part of the trusted base.
"""
from __future__ import annotations

import json
import os
import shutil
import subprocess
import tempfile
from typing import Any, Dict, Iterable, List, Optional, Tuple

from .model import FuncInfo
from .report import AnalysisError, VERIF_ROOT
from .template import (Evaluator, TStr, Lit, Hole, AltS, RepS, CommentS, FqnS, OpaqueS, TObj, TNone, TRUE, FALSE, Cond)
from .rules.shared import SUPPORT_MODULES

MOCK = os.path.join(VERIF_ROOT, 'cxx', 'mock')
CLANG = shutil.which('clang++') or 'clang++'


def render(s: TStr) -> str:
    """Concrete text of a fully constant template."""
    out = []
    for p in s.parts:
        if isinstance(p, Lit):
            out.append(p.text)
        elif isinstance(p, CommentS):
            body = render(p.body)
            lines = body.splitlines()
            out.append(''.join(('// ' + ln).rstrip() + '\n' for ln in lines))
        elif isinstance(p, FqnS):
            ns = p.ns
            if not (isinstance(ns, tuple) and ns and ns[0] == 'nsids'):
                raise AnalysisError(f'namespace value is not constant: {ns!r}')
            if p.root == 'dotted':
                out.append('.'.join(ns[1]))
            else:
                txt = '::'.join(ns[1])
                out.append(('::' + txt) if p.root == TRUE and txt else txt)
        elif isinstance(p, AltS):
            if p.cond == TRUE:
                out.append(render(p.a))
            elif p.cond == FALSE:
                out.append(render(p.b))
            else:
                raise AnalysisError(f'header text depends on an undecided condition {p.cond!r}')
        else:
            raise AnalysisError(f'header text is not constant: {type(p).__name__} {p!r}'[:200])
    return ''.join(out)


def extract_headers(ctx, prefix: Optional[Tuple[str, ...]] = None) -> Dict[str, Dict[str, str]]:
    """{module: {'filename', 'contents', 'namespace'}} for the six support headers under the given prefix."""
    prog = ctx.prog
    ev = Evaluator(prog, ctx.cg)
    out: Dict[str, Dict[str, str]] = {}
    for m in SUPPORT_MODULES:
        fn = prog.func(f'support_files.{m}', 'create_header')
        arg = TNone if prefix is None else ('nsids', tuple(prefix))
        val = ev.eval_entry(fn, {fn.params()[0].arg: arg})
        if not isinstance(val, TObj) or val.cls.name != 'GeneratedContent':
            raise AnalysisError(f'{m}.create_header does not evaluate to a GeneratedContent: {val!r}'[:200])
        fname, contents, ns = val.fields.get('filename'), val.fields.get('contents'), val.fields.get('namespace')
        if not isinstance(fname, TStr) or not isinstance(contents, TStr):
            raise AnalysisError(f'{m}.create_header: filename / contents are not text')
        out[m] = {'filename': render(fname), 'contents': render(contents),
                  'namespace': '::'.join(ns[1]) if isinstance(ns, tuple) and ns and ns[0] == 'nsids' else ''}
    if ev.opaque_log:
        raise AnalysisError(f'support header generation contains unmodelled constructs: {sorted(set(ev.opaque_log))[:3]}')
    return out


class Scratch:
    def __init__(self):
        self.dir = tempfile.mkdtemp(prefix='dznverif-cxx-')

    def write(self, name: str, text: str) -> str:
        path = os.path.join(self.dir, name)
        os.makedirs(os.path.dirname(path), exist_ok=True)
        with open(path, 'w') as fh:
            fh.write(text)
        return path

    def close(self):
        shutil.rmtree(self.dir, ignore_errors=True)

    def __enter__(self):
        return self

    def __exit__(self, *a):
        self.close()


def clang_check(scratch: Scratch, tu_name: str, tu_text: str, extra: Iterable[str] = ()) -> Tuple[int, str]:
    path = scratch.write(tu_name, tu_text)
    cmd = [CLANG, '-std=c++17', '-fsyntax-only', '-Wno-pragma-once-outside-header', '-I', scratch.dir, '-I', MOCK,
           *extra, path]
    proc = subprocess.run(cmd, capture_output=True, text=True, timeout=300)
    return proc.returncode, proc.stderr


def clang_ast(scratch: Scratch, tu_name: str, tu_text: str, filt: str) -> List[dict]:
    path = scratch.write(tu_name, tu_text)
    cmd = [CLANG, '-std=c++17', '-fsyntax-only', '-I', scratch.dir, '-I', MOCK, '-Xclang', '-ast-dump=json',
           '-Xclang', f'-ast-dump-filter={filt}', path]
    proc = subprocess.run(cmd, capture_output=True, text=True, timeout=300)
    if proc.returncode != 0:
        raise AnalysisError(f'clang could not produce the AST of {filt}: {proc.stderr[:300]}')
    dec = json.JSONDecoder()
    txt = proc.stdout
    objs, i = [], 0
    while i < len(txt):
        while i < len(txt) and txt[i] != '{':
            i += 1
        if i >= len(txt):
            break
        obj, j = dec.raw_decode(txt, i)
        objs.append(obj)
        i = j
    return objs


def first_error(stderr: str) -> str:
    for ln in stderr.splitlines():
        if 'error:' in ln:
            return ln.strip()[:240]
    return stderr.strip().splitlines()[0][:240] if stderr.strip() else ''


# -- JSON AST helpers ---------------------------------------------------------------------------------------------
def walk_json(node: Any) -> Iterable[dict]:
    if isinstance(node, dict):
        yield node
        for c in node.get('inner', []) or []:
            yield from walk_json(c)
    elif isinstance(node, list):
        for c in node:
            yield from walk_json(c)


def kind(n: dict) -> str:
    return n.get('kind', '')


def member_name(n: dict) -> Optional[str]:
    """Name of the member a MemberExpr refers to."""
    if kind(n) == 'MemberExpr':
        return n.get('name')
    return None


# canonical member name (as written in today's support headers) -> the name it has in the analysed tree.  Filled by
# selector_asts() from the field declarations BY TYPE, so that a rename of a member does not disturb the rules.
ROLE_NAMES: Dict[str, str] = {}


def refers_to_member(n: dict, name: str) -> bool:
    name = ROLE_NAMES.get(name, name)
    return any(kind(x) == 'MemberExpr' and x.get('name') == name for x in walk_json(n))


def _field_roles(objs: List[dict], cls_name: str, rules: List[Tuple[str, Any]]) -> Dict[str, str]:
    """role -> field name, for the fields of the instantiated class whose type satisfies the role's predicate (exactly one)."""
    out: Dict[str, str] = {}
    for o in objs:
        for n in walk_json(o):
            if kind(n) == 'ClassTemplateSpecializationDecl' and n.get('name') == cls_name:
                fields = [f for f in n.get('inner', []) or [] if kind(f) == 'FieldDecl']
                for role, pred in rules:
                    hits = [f.get('name') for f in fields if pred((f.get('type') or {}).get('qualType', ''))]
                    if len(hits) == 1:
                        out[role] = hits[0]
                if out:
                    return out
    return out


def method_decls(objs: List[dict], cls_name: str, want_instantiated: bool = True) -> Dict[str, dict]:
    """Method definitions (with bodies) of the instantiated specialisation of a class template / of a class."""
    best: Dict[str, dict] = {}
    for o in objs:
        for n in walk_json(o):
            if kind(n) in ('ClassTemplateSpecializationDecl', 'CXXRecordDecl') and n.get('name') == cls_name:
                if want_instantiated and kind(n) != 'ClassTemplateSpecializationDecl':
                    continue
                if not n.get('completeDefinition') and not n.get('inner'):
                    continue
                for m in n.get('inner', []) or []:
                    if kind(m) in ('CXXMethodDecl', 'CXXConstructorDecl', 'CXXDestructorDecl') and \
                            any(kind(c) == 'CompoundStmt' for c in m.get('inner', []) or []):
                        best.setdefault(m.get('name'), m)
                    if kind(m) == 'FunctionTemplateDecl':
                        for mm in m.get('inner', []) or []:
                            if kind(mm) == 'CXXMethodDecl' and any(kind(c) == 'CompoundStmt' for c in mm.get('inner', []) or []):
                                best.setdefault(mm.get('name'), mm)
    return best


def body_of(m: dict) -> Optional[dict]:
    return next((c for c in m.get('inner', []) or [] if kind(c) == 'CompoundStmt'), None)


def field_decls(objs: List[dict], cls_name: str) -> Dict[str, dict]:
    out: Dict[str, dict] = {}
    for o in objs:
        for n in walk_json(o):
            if kind(n) in ('ClassTemplateSpecializationDecl', 'CXXRecordDecl') and n.get('name') == cls_name and n.get('inner'):
                access = 'public' if n.get('tagUsed') == 'struct' else 'private'
                for m in n.get('inner', []):
                    if kind(m) == 'AccessSpecDecl':
                        access = m.get('access', access)
                    if kind(m) == 'FieldDecl':
                        d = dict(m)
                        d['_access'] = access
                        out.setdefault(m.get('name'), d)
    return out


# ---------------------------------------------------------------------------------------------------------------------
# C02.strict: compile-fail witnesses on the strict-port header (with passing twins)
# ---------------------------------------------------------------------------------------------------------------------
def strict_port_witnesses(ctx, rule: str):
    run = ctx.run
    hs = extract_headers(ctx)
    ns = hs['strict_port']['namespace']
    fn = hs['strict_port']['filename']
    head = f'#include "{fn}"\n#include <mock_port.hh>\nMockPort a{{dzn::port::meta{{}}}}, b{{dzn::port::meta{{}}}};\nOtherPort o{{dzn::port::meta{{}}}};\n'
    cases = [
        ('Sts with Sts', f'void f() {{ {ns}::ConnectPorts({ns}::Sts<MockPort>{{a}}, {ns}::Sts<MockPort>{{b}}); }}', True),
        ('Mts with Mts', f'void f() {{ {ns}::ConnectPorts({ns}::Mts<MockPort>{{a}}, {ns}::Mts<MockPort>{{b}}); }}', True),
        ('Sts with Mts', f'void f() {{ {ns}::ConnectPorts({ns}::Sts<MockPort>{{a}}, {ns}::Mts<MockPort>{{b}}); }}', False),
        ('Mts with Sts', f'void f() {{ {ns}::ConnectPorts({ns}::Mts<MockPort>{{a}}, {ns}::Sts<MockPort>{{b}}); }}', False),
        ('different interfaces', f'void f() {{ {ns}::ConnectPorts({ns}::Sts<MockPort>{{a}}, {ns}::Sts<OtherPort>{{o}}); }}', False),
        ('Mts converted to Sts', f'{ns}::Sts<MockPort> g() {{ {ns}::Mts<MockPort> m{{a}}; return m; }}', False),
        ('bare port where strict port expected', f'void f() {{ {ns}::ConnectPorts(a, b); }}', False),
    ]
    with Scratch() as sc:
        for v in hs.values():
            sc.write(v['filename'], v['contents'])
        for label, code, should_compile in cases:
            rc, err = clang_check(sc, 'w_' + label.replace(' ', '_') + '.cc', head + code + '\n')
            compiled = rc == 0
            ok = compiled == should_compile
            run.add(rule, 'dznpy.support_files.strict_port', 'body_hh', f'witness: {label}', ok,
                    (f'{label}: accepted' if should_compile else f'{label}: rejected by the compiler ({first_error(err)[:80]})')
                    if ok else
                    (f'{label} must compile but is rejected: {first_error(err)}' if should_compile else
                     f'{label} compiles: ports of different runtime semantics / interfaces can be tied together'))
    run.floor(rule, 7)


# ---------------------------------------------------------------------------------------------------------------------
# JSON-AST rules on MultiClientSelector<MockPort> and MutexWrapped<int>
# ---------------------------------------------------------------------------------------------------------------------
def _if_guards(stmt_list: List[dict]) -> List[Tuple[int, dict]]:
    return [(i, s) for i, s in enumerate(stmt_list) if kind(s) == 'IfStmt']


def _then_of(ifs: dict) -> Optional[dict]:
    inner = ifs.get('inner', [])
    return inner[1] if len(inner) > 1 else None


def _cond_of(ifs: dict) -> Optional[dict]:
    inner = ifs.get('inner', [])
    return inner[0] if inner else None


def _contains_kind(n: Any, k: str) -> bool:
    return any(kind(x) == k for x in walk_json(n))


def _calls_member(n: Any, callee: str) -> List[dict]:
    out = []
    for x in walk_json(n):
        if kind(x) in ('CXXMemberCallExpr', 'CXXOperatorCallExpr', 'CallExpr'):
            inner = x.get('inner', [])
            if inner:
                for y in walk_json(inner[0]):
                    if kind(y) == 'MemberExpr' and y.get('name') == callee:
                        out.append(x)
                        break
                    if kind(y) == 'DeclRefExpr' and (y.get('referencedDecl') or {}).get('name') == callee:
                        out.append(x)
                        break
    return out


def _dominating_guard(body: dict, target: dict, member: str, want_throw: bool = True) -> bool:
    """Is `target` preceded, in its own or an enclosing compound statement, by `if (<member>) throw/return`?"""
    def search(node: dict, guards: List[dict]) -> Optional[bool]:
        if node is target:
            return any(True for g in guards)
        if kind(node) == 'CompoundStmt':
            local = list(guards)
            for s in node.get('inner', []) or []:
                r = search(s, local)
                if r is not None:
                    return r
                if kind(s) == 'IfStmt':
                    c, t = _cond_of(s), _then_of(s)
                    if c is not None and t is not None and refers_to_member(c, member) and \
                            (_contains_kind(t, 'CXXThrowExpr') if want_throw else _contains_kind(t, 'ReturnStmt')):
                        local.append(s)
            return None
        for c in node.get('inner', []) or []:
            r = search(c, guards)
            if r is not None:
                return r
        return None
    return bool(search(body, []))


def selector_asts(ctx):
    hs = extract_headers(ctx)
    ns = hs['strict_port']['namespace']
    tu = ''.join(f'#include "{v["filename"]}"\n' for v in hs.values()) + '#include <mock_port.hh>\n' + \
        f'template struct {ns}::MultiClientSelector<MockPort>;\ntemplate struct {ns}::MutexWrapped<int>;\n'
    with Scratch() as sc:
        for v in hs.values():
            sc.write(v['filename'], v['contents'])
        sel = clang_ast(sc, 'sel.cc', tu, 'MultiClientSelector')
        mw = clang_ast(sc, 'mw.cc', tu, 'MutexWrapped')
    ROLE_NAMES.clear()
    ROLE_NAMES.update(_field_roles(sel, 'MultiClientSelector', [
        ('m_clients', lambda t: t.startswith('std::map<')),
        ('m_finalConstructed', lambda t: t == 'bool'),
        ('m_clientSelect', lambda t: 'MutexWrapped<' in t),
    ]))
    ROLE_NAMES.update(_field_roles(mw, 'MutexWrapped', [
        ('m_mutex', lambda t: t.endswith('std::mutex') or t == 'std::mutex'),
        ('m_protectee', lambda t: 'mutex' not in t),
    ]))
    return sel, mw, hs


def selector_rules(ctx, prop: str):
    """C10.selector / C04.selector / C11.* on the instantiated templates."""
    run = ctx.run
    mod = 'dznpy.support_files.multi_client_selector'
    try:
        sel, mw, hs = selector_asts(ctx)
    except AnalysisError as exc:
        run.error(f'{prop}.selector', mod, 'body_hh', str(exc), str(exc))
        return
    methods = method_decls(sel, 'MultiClientSelector')
    need = ['FinalConstruct', 'Index', 'Select', 'Deselect', 'CurrentClient', 'operator()', 'GetClientIdentifiers']
    missing = [m for m in need if m not in methods]
    if missing:
        run.error(f'{prop}.selector', mod, 'MultiClientSelector', str(missing), f'methods {missing} not found in the instantiated template')
        return
    run.stats['selector_methods_analysed'] = sorted(methods)

    if prop == 'C10':
        # FinalConstruct: range-for over m_clients calling check_bindings, no early exit in the loop, then flag set
        fc = body_of(methods['FinalConstruct'])
        stmts = fc.get('inner', [])
        loops = [(i, s) for i, s in enumerate(stmts) if kind(s) == 'CXXForRangeStmt']
        ok, why = False, 'FinalConstruct does not iterate all registered clients calling check_bindings()'
        if len(loops) == 1:
            i, lp = loops[0]
            over_clients = refers_to_member(lp, 'm_clients')
            calls = _calls_member(lp, 'check_bindings')
            on_port = any(refers_to_member(c, 'dznPort') for c in calls)
            early = any(kind(x) in ('ReturnStmt', 'BreakStmt', 'ContinueStmt') for x in walk_json(lp))
            flag_after = any(kind(s) == 'BinaryOperator' and s.get('opcode') == '=' and refers_to_member(s, 'm_finalConstructed')
                             and _contains_kind(s, 'CXXBoolLiteralExpr') for s in stmts[i + 1:])
            flag_true = any(kind(x) == 'CXXBoolLiteralExpr' and x.get('value') is True for s in stmts[i + 1:] for x in walk_json(s)
                            if kind(s) == 'BinaryOperator')
            # a `return` in front of the loop skips the checks altogether (a `throw` there is a refusal, which is fine)
            skips = [x for s_ in stmts[:i] for x in walk_json(s_) if kind(x) == 'ReturnStmt']
            if skips:
                why = ('FinalConstruct() can return before it has checked the client ports (a return statement precedes the loop): '
                       'a repeated final construction no longer detects an unbound event of a registered client')
            elif over_clients and calls and on_port and not early and flag_after and flag_true:
                ok, why = True, 'FinalConstruct checks the bindings of every client port, then locks registration'
            elif early:
                why = 'the loop over the client ports can leave early: later clients are not checked'
            elif not flag_after:
                why = 'm_finalConstructed is not set after the checks: clients can still be registered afterwards'
        run.add('C10.selector', mod, 'MultiClientSelector::FinalConstruct', 'FinalConstruct body', ok, why)
        # every insertion into m_clients is guarded by `if (m_finalConstructed) throw`
        n_ins = 0
        for name, m in methods.items():
            b = body_of(m)
            for ins in ('insert_or_assign', 'insert', 'emplace', 'emplace_hint', 'try_emplace', 'operator[]', 'erase', 'clear', 'merge', 'extract', 'swap'):
                for call in _calls_member(b, ins):
                    if not refers_to_member(call, 'm_clients'):
                        continue
                    n_ins += 1
                    ok = _dominating_guard(b, call, 'm_finalConstructed')
                    run.add('C10.selector', mod, f'MultiClientSelector::{name}', f'{ins} on m_clients', ok,
                            'registration is refused once final-constructed' if ok else
                            f'{name} modifies m_clients without a dominating `if (m_finalConstructed) throw`: a client can be '
                            f'registered after FinalConstruct() and is never checked')
        if n_ins == 0:
            run.error('C10.selector', mod, 'MultiClientSelector', 'm_clients writers', 'no insertion into m_clients found')
        op = body_of(methods['operator()'])
        rets = [s for s in op.get('inner', []) if kind(s) == 'ReturnStmt']
        ok = bool(rets) and _dominating_guard(op, rets[0], 'm_finalConstructed')
        run.add('C10.selector', mod, 'MultiClientSelector::operator()', 'write access to the arbitered port', ok,
                'write access to the arbitered port is refused once final-constructed' if ok else
                'the arbitered port can be rebound after FinalConstruct()')
        run.floor('C10.selector', 3)

    if prop == 'C04':
        # Select: the selection is assigned from m_clients.at(identifier) only after the registered-client test
        s_body = body_of(methods['Select'])
        assigns = [x for x in walk_json(s_body) if kind(x) == 'CXXOperatorCallExpr' and any(
            kind(y) == 'DeclRefExpr' and (y.get('referencedDecl') or {}).get('name') == 'operator=' for y in walk_json(x.get('inner', [{}])[0]))]
        ok = False
        why = 'Select does not assign the selection from m_clients.at(identifier)'
        for a in assigns:
            if _calls_member(a, 'at') and refers_to_member(a, 'm_clients'):
                guarded = _dominating_guard(s_body, a, 'm_clients', want_throw=False)
                ok = guarded
                why = 'Select switches to the registered client `identifier` only' if guarded else \
                    'Select assigns the selection without first testing that the client is registered'
        run.add('C04.selector', mod, 'MultiClientSelector::Select', 'Select body', ok, why)
        # ... on every path of a registered client: a `return` in front of the assignment is only allowed under the
        # registered-client test itself
        order = list(walk_json(s_body))
        first_assign = next((i for i, x in enumerate(order) if any(x is a for a in assigns) and _calls_member(x, 'at')), None)

        def _enclosing_ifs(node, target, acc):
            if node is target:
                return acc
            for c_ in node.get('inner', []) or []:
                res_ = _enclosing_ifs(c_, target, acc + [node] if kind(node) == 'IfStmt' else acc)
                if res_ is not None:
                    return res_
            return None
        if first_assign is not None:
            skipping = []
            for i, x in enumerate(order[:first_assign]):
                if kind(x) != 'ReturnStmt':
                    continue
                ifs = _enclosing_ifs(s_body, x, []) or []
                if not any(_cond_of(i_) is not None and refers_to_member(_cond_of(i_), 'm_clients') for i_ in ifs):
                    skipping.append(x)
            run.add('C04.selector', mod, 'MultiClientSelector::Select', 'Select: paths to the assignment', not skipping,
                    'a registered client always becomes the selected one (no return in front of the assignment but the '
                    'unknown-client refusal)' if not skipping else
                    'Select can return before it switches to the new client (a return statement that does not depend on the '
                    'registered-client test precedes the assignment): a granted claim leaves the previous client selected, which '
                    'keeps receiving the out-events')
        # who may change the selection: Select assigns, Deselect resets - nobody else (a selection without a granted claim
        # would deliver out-events to a client that holds no claim)
        for name, m in methods.items():
            if name in ('Select', 'Deselect'):
                continue
            b = body_of(m)
            writes = []
            for x in walk_json(b):
                if kind(x) == 'CXXOperatorCallExpr' and any(
                        kind(y) == 'DeclRefExpr' and (y.get('referencedDecl') or {}).get('name') == 'operator=' for y in walk_json((x.get('inner') or [{}])[0])):
                    lhs = (x.get('inner') or [None, None])[1] if len(x.get('inner') or []) > 1 else None
                    if lhs is not None and (refers_to_member(lhs, 'm_clientSelect') or _calls_member(lhs, 'CurrentClient')):
                        writes.append('assignment to the selection')
            for meth in ('reset', 'emplace', 'swap'):
                for c in _calls_member(b, meth):
                    if refers_to_member(c, 'm_clientSelect') or _calls_member(c, 'CurrentClient'):
                        writes.append(f'{meth}() on the selection')
            run.add('C04.selector', mod, f'MultiClientSelector::{name}', f'{name}: writes to the selection {writes or "none"}', not writes,
                    f'{name} does not change who is selected' if not writes else
                    f'{name} changes the selection ({", ".join(sorted(set(writes)))}): a client becomes (de)selected without a granted '
                    f'claim / a release of its own')
        # the entry handed out for an identifier is the entry OF that identifier: a position found by an ordered search
        # (lower_bound / upper_bound / equal_range) is the first entry NOT LESS than the key - another client's entry unless the
        # key found is compared with the one asked for
        n_exact = 0
        for name, m in methods.items():
            b = body_of(m)
            for meth in ('lower_bound', 'upper_bound', 'equal_range'):
                for c in _calls_member(b, meth):
                    if not refers_to_member(c, 'm_clients'):
                        continue
                    n_exact += 1
                    keys = {(y.get('referencedDecl') or {}).get('name') for y in walk_json(c) if kind(y) == 'DeclRefExpr'
                            and (y.get('referencedDecl') or {}).get('kind') == 'ParmVarDecl'}
                    compared = False
                    for x in walk_json(b):
                        is_cmp = (kind(x) == 'BinaryOperator' and x.get('opcode') in ('==', '!=', '<', '>')) or (
                            kind(x) == 'CXXOperatorCallExpr' and any(
                                kind(y) == 'DeclRefExpr' and (y.get('referencedDecl') or {}).get('name') in ('operator==', 'operator!=', 'operator<', 'operator>')
                                for y in walk_json((x.get('inner') or [{}])[0])))
                        if not is_cmp and not (kind(x) == 'CallExpr' and any(
                                kind(y) == 'MemberExpr' and y.get('name') == 'key_comp' for y in walk_json(x))):
                            continue
                        has_first = any(kind(y) == 'MemberExpr' and y.get('name') == 'first' for y in walk_json(x))
                        has_key = any(kind(y) == 'DeclRefExpr' and (y.get('referencedDecl') or {}).get('name') in keys for y in walk_json(x))
                        if has_first and has_key:
                            compared = True
                    run.add('C04.selector', mod, f'MultiClientSelector::{name}', f'{meth} on m_clients', compared,
                            f'the position found by {meth}() is taken for the client\'s entry only after its key has been compared with the identifier' if compared else
                            f'{name} takes the position found by m_clients.{meth}() for the entry of `{", ".join(sorted(k for k in keys if k)) or "the key"}` without comparing the '
                            f'key found: for an unregistered identifier that is the entry of the NEXT client in key order, whose port '
                            f'(and selection) is handed to the caller')
        run.stats['selector_ordered_searches'] = n_exact
        cc = body_of(methods['CurrentClient'])
        ok = any(kind(x) == 'CXXOperatorCallExpr' and refers_to_member(x, 'm_clientSelect') for x in walk_json(cc)) and \
            any(kind(s) == 'ReturnStmt' for s in cc.get('inner', []))
        run.add('C04.selector', mod, 'MultiClientSelector::CurrentClient', 'CurrentClient body', ok,
                'CurrentClient hands out lock-and-data of the selection' if ok else
                'CurrentClient does not return the locked selection')
        # Deselect: reset() must depend on the current holder being `identifier`
        d_body = body_of(methods['Deselect'])
        resets = _calls_member(d_body, 'reset')
        cond_on_holder = False
        for r in resets:
            # an enclosing / dominating if whose condition compares the holder's identifier with `identifier`
            def enclosing_ifs(node, target, acc):
                if node is target:
                    return acc
                for c in node.get('inner', []) or []:
                    nacc = acc + [node] if kind(node) == 'IfStmt' else acc
                    res = enclosing_ifs(c, target, nacc)
                    if res is not None:
                        return res
                return None
            ifs = enclosing_ifs(d_body, r, []) or []
            for i_ in ifs:
                c = _cond_of(i_)
                if c is not None and any(kind(y) == 'MemberExpr' and y.get('name') == 'identifier' for y in walk_json(c)) and \
                        any(kind(y) == 'DeclRefExpr' and (y.get('referencedDecl') or {}).get('name') == 'identifier' for y in walk_json(c)):
                    cond_on_holder = True
        run.add('C04.selector', mod, 'MultiClientSelector::Deselect', 'Deselect resets the selection', cond_on_holder and bool(resets),
                'Deselect releases the claim only when the caller holds it' if cond_on_holder else
                'Deselect resets the selection whoever calls it: a release by client B deselects client A that holds the '
                'claim, so A stops receiving the component\'s out-events although it has not released')
        run.floor('C04.selector', 3)

    if prop == 'C11':
        _c11_rules(ctx, methods, sel, mw)


def _c11_rules(ctx, methods: Dict[str, dict], sel: List[dict], mw: List[dict]):
    run = ctx.run
    mod_s = 'dznpy.support_files.multi_client_selector'
    mod_m = 'dznpy.support_files.mutex_wrapped'
    # ---- C11.guarded: MutexWrapped ----------------------------------------------------------------------------------
    mmeth = method_decls(mw, 'MutexWrapped')
    fields = field_decls(mw, 'MutexWrapped')
    PROT, MTX = ROLE_NAMES.get('m_protectee', 'm_protectee'), ROLE_NAMES.get('m_mutex', 'm_mutex')
    if 'operator()' not in mmeth or PROT not in fields:
        run.error('C11.guarded', mod_m, 'MutexWrapped', 'operator() / m_protectee', 'MutexWrapped shape not recognised')
        return
    ok = fields[PROT].get('_access') == 'private' and fields.get(MTX, {}).get('_access') == 'private'
    run.add('C11.guarded', mod_m, 'MutexWrapped', 'm_protectee / m_mutex access', ok,
            'the protected value and its mutex are private' if ok else 'the protected value or its mutex is accessible without the lock')
    op = body_of(mmeth['operator()'])
    stmts = op.get('inner', [])
    lock_decl = next((i for i, s in enumerate(stmts) if kind(s) == 'DeclStmt' and 'unique_lock' in json.dumps(s)
                      and refers_to_member(s, 'm_mutex')), None)
    ret = next((i for i, s in enumerate(stmts) if kind(s) == 'ReturnStmt'), None)
    ok, why = False, 'operator() does not take the lock before handing out the pointer'
    if lock_decl is not None and ret is not None and lock_decl < ret:
        r = stmts[ret]
        addr = any(kind(x) == 'UnaryOperator' and x.get('opcode') == '&' and refers_to_member(x, 'm_protectee') for x in walk_json(r))
        moved = any(kind(x) == 'CallExpr' and 'move' in json.dumps(x.get('inner', [{}])[0]) and
                    any(kind(y) == 'DeclRefExpr' and (y.get('referencedDecl') or {}).get('name') == 'lock' for y in walk_json(x))
                    for x in walk_json(r))
        if addr and moved:
            ok, why = True, 'the lock is taken first and moved into the deleter of the returned pointer'
        elif addr and not moved:
            why = 'the lock is not moved into the deleter: it is released when operator() returns while the caller still uses the data'
    run.add('C11.guarded', mod_m, 'MutexWrapped::operator()', 'lock then hand out', ok, why)
    # the only place the address of m_protectee is taken is operator()
    leaks = []
    for name, m in mmeth.items():
        if name == 'operator()':
            continue
        if any(kind(x) == 'MemberExpr' and x.get('name') == PROT for x in walk_json(body_of(m) or {})):
            leaks.append(name)
    run.add('C11.guarded', mod_m, 'MutexWrapped', 'other accesses to m_protectee', not leaks,
            'm_protectee is reachable only through operator()' if not leaks else f'm_protectee is also accessed by {leaks} without the lock')
    # deleter: holds the unique_lock by value, unlocks iff it owns the lock
    dmeth = method_decls(mw, 'RaiiLockDeleter', want_instantiated=False)
    dfields = field_decls(mw, 'RaiiLockDeleter')
    lk = dfields.get('lock', {})
    by_value = 'unique_lock' in (lk.get('type', {}).get('qualType', '')) and '&' not in lk.get('type', {}).get('qualType', '') \
        and '*' not in lk.get('type', {}).get('qualType', '')
    dop = body_of(dmeth.get('operator()', {})) if dmeth.get('operator()') else None
    unlocks = bool(dop) and bool(_calls_member(dop, 'unlock'))
    guarded = bool(dop) and any(kind(s) == 'IfStmt' and _calls_member(_cond_of(s), 'owns_lock') and _calls_member(_then_of(s), 'unlock')
                                for s in dop.get('inner', []))
    ok = by_value and unlocks and guarded
    run.add('C11.guarded', mod_m, 'MutexWrapped::RaiiLockDeleter', 'deleter', ok,
            'the deleter owns the unique_lock by value and unlocks it iff it owns the lock (reset() and scope exit both run it)'
            if ok else ('the deleter does not hold the lock by value' if not by_value else
                        'the deleter never unlocks' if not unlocks else 'the deleter unlocks without checking ownership'))
    # ---- selector: the selection is only reachable through the mutex wrapper -------------------------------------------------------
    sfields = field_decls(sel, 'MultiClientSelector')
    SEL = ROLE_NAMES.get('m_clientSelect', 'm_clientSelect')
    t = sfields.get(SEL, {}).get('type', {}).get('qualType', '')
    ok = 'MutexWrapped<' in t and sfields.get(SEL, {}).get('_access') == 'private'
    run.add('C11.guarded', mod_s, 'MultiClientSelector', f'm_clientSelect : {t[:60]}', ok,
            'the selection is a private MutexWrapped value' if ok else 'the current selection is not protected by MutexWrapped')
    # no method returns a reference / pointer to the optional itself
    for name in ('Select', 'Deselect', 'CurrentClient'):
        rt = methods[name].get('type', {}).get('qualType', '')
        bad = ('&' in rt.split('(')[0] or '*' in rt.split('(')[0]) and 'optional' in rt
        run.add('C11.guarded', mod_s, f'MultiClientSelector::{name}', f'return type {rt[:70]}', not bad,
                'does not leak a reference to the selection' if not bad else 'returns a reference to the selection that outlives the lock')
    # ---- C11.immutable -------------------------------------------------------------------------------------------------------------------
    for name in ('Select', 'Deselect', 'CurrentClient', 'GetClientIdentifiers', 'FinalConstruct'):
        b = body_of(methods[name])
        writes = []
        for w in ('insert_or_assign', 'insert', 'emplace', 'emplace_hint', 'try_emplace', 'erase', 'clear', 'operator[]', 'swap', 'merge', 'extract'):
            writes += [c for c in _calls_member(b, w) if refers_to_member(c, 'm_clients')]
        run.add('C11.immutable', mod_s, f'MultiClientSelector::{name}', 'm_clients writes', not writes,
                f'{name} only reads the client map' if not writes else
                f'{name} modifies m_clients while other threads read it without a lock')
    # ---- C11.nonreentrant ------------------------------------------------------------------------------------------------------------------
    for name in ('Select', 'Deselect'):
        b = body_of(methods[name])
        stmts = b.get('inner', [])
        acq = next((i for i, s in enumerate(stmts) if _calls_member(s, 'CurrentClient') or
                    any(kind(x) == 'CXXOperatorCallExpr' and refers_to_member(x, 'm_clientSelect') for x in walk_json(s))), None)
        again = []
        if acq is not None:
            for s in stmts[acq + 1:]:
                for callee in ('Select', 'Deselect', 'CurrentClient'):
                    if _calls_member(s, callee):
                        again.append(callee)
                if any(kind(x) == 'CXXOperatorCallExpr' and refers_to_member(x, 'm_clientSelect') for x in walk_json(s)):
                    again.append('m_clientSelect()')
        ok = acq is not None and not again
        run.add('C11.nonreentrant', mod_s, f'MultiClientSelector::{name}', 'lock acquisitions', ok,
                f'{name} acquires the selection lock once' if ok else
                (f'{name} calls {again} while it already holds the selection lock (std::mutex is not recursive: self-deadlock)'
                 if again else f'{name} never acquires the selection lock'))
    run.floor('C11.guarded', 6)
    run.floor('C11.immutable', 5)
    run.floor('C11.nonreentrant', 2)
