"""E4 (part 2) - C++ token view of a template: literal text is lexed, holes / alternatives / repetitions
are atomic tokens.  Comments are dropped; whitespace and line breaks are irrelevant.

Token kinds:
  ('id', text)        identifier / keyword (may be a composite with holes: see 'idh')
  ('idh', [parts])    identifier glued from literal text and holes, e.g. InitializePort{cap}
  ('num', text) ('str', [parts]) ('p', text)   punctuation incl. multi-char operators :: -> == != <= >= && ||
  ('hole', Hole) ('alt', AltS) ('rep', RepS) ('fqn', FqnS) ('opaque', OpaqueS)
"""
from __future__ import annotations

from typing import Any, List, Tuple

from .template import TStr, Lit, Hole, AltS, RepS, CommentS, FqnS, OpaqueS

PUNCT2 = {'::', '->', '==', '!=', '<=', '>=', '&&', '||', '+=', '-=', '++', '--', '<<', '>>'}


def atoms(s: TStr) -> List[Any]:
    out: List[Any] = []
    for p in s.parts:
        if isinstance(p, Lit):
            out.extend(p.text)
        elif isinstance(p, CommentS):
            out.append('\n')
        elif isinstance(p, FqnS) and isinstance(p.ns, tuple) and p.ns and p.ns[0] == 'nsids' and \
                (p.root == 'dotted' or (getattr(p.root, 'op', None) == 'const' and p.root.args and isinstance(p.root.args[0], bool))):
            # a name that is fully known (built from a constant, e.g. fqn_t('dzn.pump')): the same text as if it had been
            # written out in the template
            if p.root == 'dotted':
                out.extend('.'.join(p.ns[1]))
            else:
                txt = '::'.join(p.ns[1])
                out.extend(('::' + txt) if p.root.args[0] and txt else txt)
        else:
            out.append(p)
    return out


def lex(s: TStr) -> List[Tuple[str, Any]]:
    a = atoms(s)
    toks: List[Tuple[str, Any]] = []
    i, n = 0, len(a)

    def is_idch(x) -> bool:
        return isinstance(x, str) and (x.isalnum() or x == '_')

    while i < n:
        c = a[i]
        if isinstance(c, str):
            if c.isspace():
                i += 1
                continue
            if c == '/' and i + 1 < n and a[i + 1] == '/':
                while i < n and a[i] != '\n':
                    i += 1
                continue
            if c == '/' and i + 1 < n and a[i + 1] == '*':
                i += 2
                while i + 1 < n and not (a[i] == '*' and a[i + 1] == '/'):
                    i += 1
                i += 2
                continue
            if c == '"':
                parts: List[Any] = []
                i += 1
                buf = ''
                while i < n and a[i] != '"':
                    if isinstance(a[i], str):
                        if a[i] == '\\' and i + 1 < n and isinstance(a[i + 1], str):
                            buf += a[i] + a[i + 1]
                            i += 2
                            continue
                        buf += a[i]
                    else:
                        if buf:
                            parts.append(buf)
                            buf = ''
                        parts.append(a[i])
                    i += 1
                if buf:
                    parts.append(buf)
                i += 1
                toks.append(('str', parts))
                continue
            if is_idch(c) and not c.isdigit():
                parts = []
                buf = ''
                while i < n and (is_idch(a[i]) or isinstance(a[i], Hole)):
                    if isinstance(a[i], Hole):
                        if buf:
                            parts.append(buf)
                            buf = ''
                        parts.append(a[i])
                    else:
                        buf += a[i]
                    i += 1
                if buf:
                    parts.append(buf)
                if len(parts) == 1 and isinstance(parts[0], str):
                    toks.append(('id', parts[0]))
                else:
                    toks.append(('idh', parts))
                continue
            if c.isdigit():
                buf = ''
                while i < n and isinstance(a[i], str) and (a[i].isalnum() or a[i] == '.'):
                    buf += a[i]
                    i += 1
                toks.append(('num', buf))
                continue
            if i + 1 < n and isinstance(a[i + 1], str) and c + a[i + 1] in PUNCT2:
                toks.append(('p', c + a[i + 1]))
                i += 2
                continue
            toks.append(('p', c))
            i += 1
            continue
        # non-character atoms
        if isinstance(c, Hole):
            # hole followed by identifier characters -> composite identifier
            j = i + 1
            if j < n and (is_idch(a[j]) or isinstance(a[j], Hole)):
                parts = [c]
                buf = ''
                while j < n and (is_idch(a[j]) or isinstance(a[j], Hole)):
                    if isinstance(a[j], Hole):
                        if buf:
                            parts.append(buf)
                            buf = ''
                        parts.append(a[j])
                    else:
                        buf += a[j]
                    j += 1
                if buf:
                    parts.append(buf)
                toks.append(('idh', parts))
                i = j
                continue
            toks.append(('hole', c))
        elif isinstance(c, AltS):
            toks.append(('alt', c))
        elif isinstance(c, RepS):
            toks.append(('rep', c))
        elif isinstance(c, FqnS):
            toks.append(('fqn', c))
        elif isinstance(c, OpaqueS):
            toks.append(('opaque', c))
        i += 1
    return toks


def tok_text(t: Tuple[str, Any]) -> str:
    k, v = t
    if k in ('id', 'num', 'p'):
        return v
    if k == 'hole':
        return '{' + v.sym.text() + (':' + v.transform if v.transform else '') + '}'
    if k == 'idh':
        return ''.join(x if isinstance(x, str) else '{' + x.sym.text() + (':' + x.transform if x.transform else '') + '}' for x in v)
    if k == 'str':
        return '"' + ''.join(x if isinstance(x, str) else '{' + getattr(getattr(x, 'sym', None), 'text', lambda: '?')() + '}' for x in v) + '"'
    if k == 'alt':
        return f'[{v.cond!r}?{v.a!r}:{v.b!r}]'
    if k == 'rep':
        return f'<<{v.elem!r}/{v.sep!r}/{v.src!r}>>'
    if k == 'fqn':
        return f'FQN({v.ns!r},{v.root!r})'
    return '?'


def toks_text(toks) -> str:
    return ' '.join(tok_text(t) for t in toks)


def split_statements(toks: List[Tuple[str, Any]]) -> List[List[Tuple[str, Any]]]:
    """Top-level statements separated by ';' (brace / paren depth 0)."""
    out, cur, depth = [], [], 0

    def has_stmt(tok) -> bool:
        k, v = tok
        if k == 'rep':
            return any(x == ('p', ';') for x in lex(v.elem))
        if k == 'alt':
            return any(x == ('p', ';') for x in lex(v.a)) or any(x == ('p', ';') for x in lex(v.b))
        return False

    for t in toks:
        if depth == 0 and t[0] in ('rep', 'alt') and has_stmt(t):
            # a block of statements under a repetition / alternative: its own unit
            if cur:
                out.append(cur)
            out.append([t])
            cur = []
            continue
        if t[0] == 'p' and t[1] in '({[':
            depth += 1
        elif t[0] == 'p' and t[1] in ')}]':
            depth -= 1
        if t == ('p', ';') and depth == 0:
            if cur:
                out.append(cur)
            cur = []
        else:
            cur.append(t)
    if cur:
        out.append(cur)
    return out


def match_close(toks: List[Tuple[str, Any]], i: int) -> int:
    """Index of the bracket closing the one at toks[i]."""
    opener = toks[i][1]
    closer = {'(': ')', '{': '}', '[': ']'}[opener]
    depth = 0
    for j in range(i, len(toks)):
        if toks[j] == ('p', opener):
            depth += 1
        elif toks[j] == ('p', closer):
            depth -= 1
            if depth == 0:
                return j
    return -1
