"""Abstract values and three-valued evaluation of guard conditions (used by E3a).

`Abs.at(fn, expr, node)` gives what is statically known about `expr` when control is at `node`:
its (narrowed) type, whether it can be None, whether it is truthy, and an enum member if it is one.
`Abs.refutes(fact, ...)` decides whether a branch condition is definitely false.
"""
from __future__ import annotations

import ast
from dataclasses import dataclass
from typing import Any, Dict, List, Optional, Tuple

from .model import Program, CallGraph, FuncInfo, ClassInfo, TypeEnv, strip_opt, union, ANY, NONE, t_cls, t_opt, iter_own_nodes
from .flow import Flow, atomic_facts, same_expr

YES, NO, MAYBE = 'yes', 'no', 'maybe'


@dataclass
class AbsVal:
    type: tuple = ANY
    none: str = MAYBE          # is the value None?
    truthy: str = MAYBE
    enum: Optional[Tuple[str, str]] = None   # (class fq, member)
    const: Any = None
    has_const: bool = False


BUILTIN_TYPES = {'str': ('str',), 'int': ('int',), 'bool': ('bool',), 'float': ('float',), 'list': ('list', ANY),
                 'dict': ('dict', ANY, ANY), 'set': ('set', ANY), 'tuple': ('tuple', ()), 'bytes': ('bytes',)}


class Abs:
    def __init__(self, prog: Program, cg: CallGraph, flow: Flow):
        self.prog = prog
        self.cg = cg
        self.flow = flow
        self.call_type_hooks: List[Any] = []     # callables (fn, call) -> type or None
        self._facts_cache: Dict[int, list] = {}

    # -- facts ---------------------------------------------------------------------------------
    def facts_at(self, node: ast.AST) -> List[Tuple[ast.expr, bool]]:
        k = id(node)
        if k not in self._facts_cache:
            self._facts_cache[k] = atomic_facts(self.flow.path_conditions(node))
        return self._facts_cache[k]

    # -- types ---------------------------------------------------------------------------------
    def resolve_type_expr(self, fn: FuncInfo, e: ast.expr, binding: Optional[dict] = None) -> Optional[tuple]:
        """The type denoted by the second argument of isinstance(): class, builtin type, tuple of those.
        `binding` maps parameter names to (caller fn, arg expr) when the expression is a parameter."""
        if isinstance(e, ast.Tuple):
            ts = [self.resolve_type_expr(fn, x, binding) for x in e.elts]
            if any(t is None for t in ts):
                return None
            return union(ts)
        if isinstance(e, ast.Name) and binding and e.id in binding:
            cfn, arg = binding[e.id]
            return self.resolve_type_expr(cfn, arg, None)
        if isinstance(e, ast.Name) and e.id in BUILTIN_TYPES and self.prog.resolve_name(fn.module, e.id) is None:
            return BUILTIN_TYPES[e.id]
        sym = self.prog.resolve_expr_symbol(fn.module, e)
        if isinstance(sym, ClassInfo):
            return t_cls(sym.fq)
        return None

    def subtype(self, t: tuple, of: tuple) -> Optional[bool]:
        """t <= of ?  None when unknown."""
        t = strip_opt(t)
        if t == ANY or of == ANY:
            return None
        if t[0] == 'union':
            rs = [self.subtype(x, of) for x in t[1]]
            if all(r is True for r in rs):
                return True
            if all(r is False for r in rs):
                return False
            return None
        if of[0] == 'union':
            rs = [self.subtype(t, x) for x in of[1]]
            if any(r is True for r in rs):
                return True
            if all(r is False for r in rs):
                return False
            return None
        if t[0] == 'cls' and of[0] == 'cls':
            return self.prog.is_subclass(t[1], of[1])
        if t[0] == 'cls' or of[0] == 'cls':
            if t[0] == 'bool' and of[0] == 'int':
                return True
            return False
        if t[0] == of[0]:
            return True
        if t[0] == 'bool' and of[0] == 'int':
            return True
        if t[0] in ('strmethod', 'collmethod', 'func', 'type'):
            return None
        return False

    def type_at(self, fn: FuncInfo, e: ast.expr, node: Optional[ast.AST] = None) -> tuple:
        env = self.cg.env(fn)
        t = self._base_type(fn, env, e, node)
        if node is None:
            return t
        for cond, pol in self.facts_at(node):
            t = self._narrow(fn, t, e, cond, pol)
        return t

    def _binder(self, name: ast.Name):
        """Innermost enclosing `for` statement / comprehension generator that binds this name, if any."""
        child = name
        p = self.prog.parent(name)
        while p is not None and not isinstance(p, (ast.FunctionDef, ast.AsyncFunctionDef, ast.Module)):
            if isinstance(p, (ast.ListComp, ast.SetComp, ast.GeneratorExp, ast.DictComp)):
                for g in p.generators:
                    if child is g:
                        break       # the name occurs in this generator's own iter / ifs
                    if any(isinstance(x, ast.Name) and x.id == name.id for x in ast.walk(g.target)):
                        return g
                else:
                    pass
                for g in p.generators:
                    if child is g and any(isinstance(x, ast.Name) and x.id == name.id for x in ast.walk(g.target)) \
                            and not any(x is name for x in ast.walk(g.iter)):
                        return g
            elif isinstance(p, (ast.For, ast.AsyncFor)) and child is not p.iter:
                if any(isinstance(x, ast.Name) and x.id == name.id for x in ast.walk(p.target)):
                    return p
            child = p
            p = self.prog.parent(p)
        return None

    def _base_type(self, fn, env: TypeEnv, e: ast.expr, node, depth: int = 0) -> tuple:
        if depth < 5:
            if isinstance(e, ast.Name) and isinstance(getattr(e, 'ctx', None), ast.Load) and \
                    self.prog.parent(e) is not None:
                b = self._binder(e)
                if b is not None and isinstance(b.target, ast.Name):
                    return TypeEnv.elem_type(self._typed(fn, b.iter, depth + 1))
            if isinstance(e, ast.Name):
                d = self._single_def(fn, e.id)
                if isinstance(d, (ast.ListComp, ast.IfExp)) or (
                        isinstance(d, ast.Call) and isinstance(d.func, ast.Name) and d.func.id in ('deepcopy', 'copy')):
                    return self._typed(fn, d, depth + 1)
            if isinstance(e, ast.ListComp):
                return ('list', self._typed(fn, e.elt, depth + 1))
            if isinstance(e, ast.IfExp):
                return union([self._typed(fn, e.body, depth + 1), self._typed(fn, e.orelse, depth + 1)])
            if isinstance(e, ast.Call) and isinstance(e.func, ast.Name) and e.func.id in ('deepcopy', 'copy') \
                    and len(e.args) == 1:
                return self._typed(fn, e.args[0], depth + 1)
        if isinstance(e, ast.Call):
            for hook in self.call_type_hooks:
                t = hook(fn, e)
                if t is not None:
                    return t
        if isinstance(e, ast.Name):
            # single local definition through a hooked call
            d = self._single_def(fn, e.id)
            if isinstance(d, ast.Call):
                for hook in self.call_type_hooks:
                    t = hook(fn, d)
                    if t is not None:
                        return t
        if isinstance(e, ast.Attribute):
            bt = self.type_at(fn, e.value, node)
            if bt != env.type_of(e.value):
                return env._attr_type(strip_opt(bt), e.attr) if strip_opt(bt)[0] != 'any' else env.type_of(e)
        return env.type_of(e)

    def _typed(self, fn: FuncInfo, e: ast.expr, depth: int) -> tuple:
        """type of e with the path facts at e itself (comprehension filters, enclosing guards)."""
        env = self.cg.env(fn)
        t = self._base_type(fn, env, e, e, depth)
        if self.prog.parent(e) is not None:
            for cond, pol in self.facts_at(e):
                t = self._narrow(fn, t, e, cond, pol)
        return t

    def _property_of(self, fn: FuncInfo, e: ast.Attribute, node) -> Optional[FuncInfo]:
        """The property method that `e` (= <base>.<attr>) reads, when <base> is an object of one package class that nothing subclasses
        with another definition of the property."""
        try:
            bt = strip_opt(self.type_at(fn, e.value, node))
        except Exception:       # pylint: disable=broad-except
            return None
        if bt[0] != 'cls' or bt[1] not in self.prog.classes:
            return None
        c = self.prog.classes[bt[1]]
        m = self.prog.lookup_method(c, e.attr)
        if m is None or not m.is_property or e.attr in self.prog.class_fields(c):
            return None
        for sub in self.prog.classes.values():
            if sub is not c and self.prog.is_subclass(sub.fq, c.fq) and e.attr in sub.methods and sub.methods[e.attr] is not m:
                return None
        return m

    def _single_def(self, fn: FuncInfo, name: str) -> Optional[ast.AST]:
        return self.cg.env(fn).single_def(name)

    def _dominating_def(self, fn: FuncInfo, name: str, node: ast.AST, default_idiom: bool = False) -> Optional[ast.expr]:
        """The expression last assigned to local `name` on EVERY path to `node`: the closest `name = E` that precedes the
        statement of `node` in its own block or in an enclosing block, with no statement in between that may bind the name
        again (a loop around the use must not bind it at all: the back edge would carry the later value)."""
        prog = self.prog

        def binds(st: ast.AST) -> bool:
            for x in ast.walk(st):
                if isinstance(x, ast.Name) and x.id == name and isinstance(x.ctx, (ast.Store, ast.Del)):
                    return True
                if isinstance(x, (ast.Global, ast.Nonlocal)) and name in x.names:
                    return True
            return False
        cur = self.flow.enclosing_stmt(node)
        while cur is not None and cur is not fn.node:
            par = prog.parent(cur)
            if par is None:
                return None
            blk = None
            for fld in ('body', 'orelse', 'finalbody'):
                b = getattr(par, fld, None)
                if isinstance(b, list) and any(x is cur for x in b):
                    blk = b
            if blk is None and isinstance(par, ast.ExceptHandler):
                return None          # inside a handler: the try body may have been left anywhere
            if blk is None:
                return None
            i = next(k for k, x in enumerate(blk) if x is cur)
            for st in reversed(blk[:i]):
                if isinstance(st, ast.Assign) and len(st.targets) == 1 and isinstance(st.targets[0], ast.Name) and \
                        st.targets[0].id == name:
                    return st.value
                if isinstance(st, ast.AnnAssign) and isinstance(st.target, ast.Name) and st.target.id == name and st.value is not None:
                    return st.value
                if default_idiom and isinstance(st, ast.If) and not st.orelse and len(st.body) == 1 and isinstance(st.body[0], ast.Assign) \
                        and len(st.body[0].targets) == 1 and isinstance(st.body[0].targets[0], ast.Name) and st.body[0].targets[0].id == name:
                    # `if x is None: x = E` / `if not x: x = E`: afterwards x is None only if E is
                    t = st.test
                    if (isinstance(t, ast.Compare) and len(t.ops) == 1 and isinstance(t.ops[0], (ast.Is, ast.Eq)) and
                            isinstance(t.left, ast.Name) and t.left.id == name and isinstance(t.comparators[0], ast.Constant)
                            and t.comparators[0].value is None) or \
                            (isinstance(t, ast.UnaryOp) and isinstance(t.op, ast.Not) and isinstance(t.operand, ast.Name) and t.operand.id == name):
                        return st.body[0].value
                if binds(st):
                    return None
            if par is fn.node:
                return None
            if isinstance(par, (ast.For, ast.AsyncFor, ast.While)) and binds(par):
                return None
            if isinstance(par, (ast.FunctionDef, ast.AsyncFunctionDef, ast.Lambda, ast.ClassDef)):
                return None
            if isinstance(par, ast.Try) and blk is not par.body:
                return None
            if isinstance(par, ast.ExceptHandler):
                return None
            cur = par
        return None

    def _narrow(self, fn, t: tuple, e: ast.expr, cond: ast.expr, pol: bool) -> tuple:
        # isinstance(e, T)
        if isinstance(cond, ast.Call) and isinstance(cond.func, ast.Name) and cond.func.id == 'isinstance' \
                and len(cond.args) == 2 and same_expr(cond.args[0], e):
            tt = self.resolve_type_expr(fn, cond.args[1])
            if tt is None:
                return t
            if pol:
                if strip_opt(t) != ANY and self.subtype(strip_opt(t), tt) is True:
                    return strip_opt(t)      # keep the more specific type (List[X] stays List[X] under isinstance list)
                return tt
            base = strip_opt(t)
            if base[0] == 'union':
                rest = [x for x in base[1] if self.subtype(x, tt) is not True]
                nt = union(rest) if rest else t
                return t_opt(nt) if t[0] == 'opt' else nt
            return t
        # e is None / e is not None / e == None
        if isinstance(cond, ast.Compare) and len(cond.ops) == 1 and same_expr(cond.left, e) and \
                isinstance(cond.comparators[0], ast.Constant) and cond.comparators[0].value is None:
            is_none = isinstance(cond.ops[0], (ast.Is, ast.Eq))
            if is_none == pol:
                return NONE
            return strip_opt(t)
        # truthiness of e
        if same_expr(cond, e):
            if pol:
                return strip_opt(t)
            return t
        return t

    # -- abstract value --------------------------------------------------------------------------------
    def at(self, fn: FuncInfo, e: ast.expr, node: Optional[ast.AST] = None, depth: int = 0) -> AbsVal:
        t = self.type_at(fn, e, node)
        v = AbsVal(type=t)
        if t == NONE:
            v.none, v.truthy = YES, NO
        elif t[0] not in ('opt', 'any', 'union'):
            v.none = NO
        elif t[0] == 'union' and not any(x == NONE or x[0] in ('opt', 'any') for x in t[1]):
            v.none = NO
        # syntactic knowledge
        if isinstance(e, ast.Constant):
            v.const, v.has_const = e.value, True
            v.none = YES if e.value is None else NO
            v.truthy = YES if e.value else NO
        elif isinstance(e, ast.JoinedStr):
            v.none = NO
            for part in e.values:
                if isinstance(part, ast.Constant) and part.value:
                    v.truthy = YES
                elif isinstance(part, ast.FormattedValue) and depth < 4 and part.format_spec is None:
                    pv = self.at(fn, part.value, node, depth + 1)
                    if pv.truthy == YES and strip_opt(pv.type)[0] == 'str':
                        v.truthy = YES
        elif isinstance(e, (ast.List, ast.Tuple, ast.Set, ast.Dict)):
            v.none = NO
            n = len(e.elts) if not isinstance(e, ast.Dict) else len(e.keys)
            v.truthy = YES if n else NO
        elif isinstance(e, (ast.ListComp, ast.SetComp, ast.DictComp, ast.GeneratorExp)):
            v.none = NO
        elif isinstance(e, ast.BinOp) and isinstance(e.op, ast.Add):
            l, r = self.at(fn, e.left, node, depth + 1), self.at(fn, e.right, node, depth + 1)
            v.none = NO
            if YES in (l.truthy, r.truthy) and strip_opt(t)[0] in ('str', 'list'):
                v.truthy = YES
        elif isinstance(e, ast.BoolOp) and isinstance(e.op, ast.Or) and depth < 4:
            # `a or b` is a when a is truthy (hence not None), else b
            last = self.at(fn, e.values[-1], node, depth + 1)
            if last.none == NO:
                v.none = NO
            if last.truthy == YES or any(self.at(fn, x, node, depth + 1).truthy == YES for x in e.values[:-1]):
                v.truthy = YES
        elif isinstance(e, ast.IfExp):
            a, b = self.at(fn, e.body, node, depth + 1), self.at(fn, e.orelse, node, depth + 1)
            v.none = a.none if a.none == b.none else MAYBE
            v.truthy = a.truthy if a.truthy == b.truthy else MAYBE
        elif isinstance(e, ast.Call):
            callees = self.cg.env(fn).resolve_call(e)
            if any(isinstance(c, tuple) and c[0] == 'ctor' for c in callees):
                cls = next(c[1] for c in callees if isinstance(c, tuple) and c[0] == 'ctor')
                v.none = NO
                if not any(self.prog.lookup_method(cls, m) for m in ('__bool__', '__len__')):
                    v.truthy = YES
        elif isinstance(e, ast.Attribute) and depth < 3 and self._property_of(fn, e, node) is not None:
            # a property of a package class: what every `return` of it hands back
            pm = self._property_of(fn, e, node)
            rets = [x for x in iter_own_nodes(pm.node) if isinstance(x, ast.Return)]
            if rets and all(x.value is not None for x in rets) and not any(isinstance(x, (ast.Yield, ast.YieldFrom)) for x in iter_own_nodes(pm.node)):
                vals = [self.at(pm, x.value, x.value, depth + 1) for x in rets]
                if all(v_.none == NO for v_ in vals):
                    v.none = NO
                if all(v_.truthy == YES for v_ in vals):
                    v.truthy = YES
        elif isinstance(e, (ast.Attribute, ast.Name)):
            sym = self.prog.resolve_expr_symbol(fn.module, e) if not (
                isinstance(e, ast.Name) and (e.id in self.cg.env(fn).vars or e.id in self.cg.env(fn)._assign_sites)) \
                else None
            if isinstance(sym, tuple) and sym[0] == 'enum_member':
                v.enum = (sym[1].fq, sym[2])
                v.none, v.truthy = NO, MAYBE
            elif isinstance(sym, (ClassInfo, FuncInfo)) or (isinstance(sym, tuple) and sym[0] == 'ext'):
                v.none, v.truthy = NO, YES
            elif sym is None and isinstance(e, ast.Name) and e.id in BUILTIN_TYPES and \
                    e.id not in self.cg.env(fn).vars and e.id not in self.cg.env(fn)._assign_sites:
                v.none, v.truthy = NO, YES
            elif isinstance(sym, tuple) and sym[0] == 'const' and depth < 4:
                # module constant
                owner = sym[2]
                cv = sym[1]
                if isinstance(cv, ast.Constant):
                    v.const, v.has_const = cv.value, True
                    v.none = YES if cv.value is None else NO
                    v.truthy = YES if cv.value else NO
                elif isinstance(cv, ast.Call) and isinstance(cv.func, (ast.Name, ast.Attribute)):
                    # an instance of a package class built at module level: never None, truthy unless it defines __bool__ / __len__
                    csym = self.prog.resolve_expr_symbol(owner, cv.func)
                    if isinstance(csym, ClassInfo) and not csym.is_enum:
                        v.none = NO
                        v.type = ('cls', csym.fq)
                        if not any(self.prog.lookup_method(csym, m) for m in ('__bool__', '__len__')):
                            v.truthy = YES
            elif isinstance(e, ast.Name) and depth < 4:
                d = self._single_def(fn, e.id)
                if d is not None:
                    dv = self.at(fn, d, None, depth + 1)
                    if v.none == MAYBE:
                        v.none = dv.none
                    v.truthy = dv.truthy
                    v.enum = dv.enum
                    v.const, v.has_const = dv.const, dv.has_const
                elif node is not None and v.none == MAYBE and e.id in self.cg.env(fn)._assign_sites and \
                        isinstance(getattr(e, 'ctx', None), ast.Load):
                    dd = self._dominating_def(fn, e.id, node, default_idiom=True)
                    if dd is not None:
                        dv = self.at(fn, dd, dd, depth + 1)
                        if dv.none == NO:
                            v.none = NO
        # path facts
        if node is not None:
            for cond, pol in self.facts_at(node):
                if same_expr(cond, e):
                    v.truthy = YES if pol else NO
                    if pol:
                        v.none = NO
                elif pol and isinstance(cond, ast.Call) and isinstance(cond.func, ast.Name) and cond.func.id == 'any' and \
                        len(cond.args) == 1 and not cond.keywords and same_expr(cond.args[0], e) and \
                        self.prog.resolve_name(fn.module, 'any') is None:
                    v.truthy = YES          # any(x) holds: x has an element
                    v.none = NO
                elif isinstance(cond, ast.Compare) and len(cond.ops) == 1 and same_expr(cond.left, e):
                    rhs = cond.comparators[0]
                    if isinstance(rhs, ast.Constant) and rhs.value is None:
                        is_none = isinstance(cond.ops[0], (ast.Is, ast.Eq))
                        v.none = YES if is_none == pol else NO
                    else:
                        sym = self.prog.resolve_expr_symbol(fn.module, rhs)
                        if isinstance(sym, tuple) and sym[0] == 'enum_member' and \
                                isinstance(cond.ops[0], (ast.Eq, ast.Is)) and pol:
                            v.enum = (sym[1].fq, sym[2])
                elif isinstance(cond, ast.Compare) and len(cond.ops) == 1 and isinstance(cond.left, ast.Call) \
                        and isinstance(cond.left.func, ast.Name) and cond.left.func.id == 'len' \
                        and cond.left.args and same_expr(cond.left.args[0], e) and \
                        isinstance(cond.comparators[0], ast.Constant) and isinstance(cond.comparators[0].value, int):
                    k = cond.comparators[0].value
                    op = cond.ops[0]
                    if pol and ((isinstance(op, ast.Gt) and k >= 0) or (isinstance(op, ast.GtE) and k >= 1)
                                or (isinstance(op, ast.Eq) and k >= 1) or (isinstance(op, ast.NotEq) and k == 0)):
                        v.truthy = YES
                    if not pol and ((isinstance(op, ast.Eq) and k == 0) or (isinstance(op, ast.Lt) and k == 1)):
                        v.truthy = YES
        if v.truthy == YES:
            v.none = NO
        return v

    # -- condition evaluation ---------------------------------------------------------------------------
    def eval_cond(self, fn: FuncInfo, cond: ast.expr, node: Optional[ast.AST],
                  binding: Optional[Dict[str, Tuple[FuncInfo, ast.expr, ast.AST]]] = None) -> str:
        """Three-valued truth of `cond` (an expression of `fn`).  `binding` maps names of fn's parameters to
        (caller fn, argument expression, call node): those names are evaluated in the caller's context."""
        def val(e) -> Optional[AbsVal]:
            if binding is not None:
                if isinstance(e, ast.Name) and e.id in binding:
                    cfn, arg, cnode = binding[e.id]
                    if arg is None:
                        return AbsVal(type=NONE, none=YES, truthy=NO)
                    return self.at(cfn, arg, cnode)
                if isinstance(e, ast.Attribute) and isinstance(e.value, ast.Name) and e.value.id == 'self' \
                        and ('self.' + e.attr) in binding:
                    cfn, arg, cnode = binding['self.' + e.attr]
                    if arg is None:
                        return None
                    return self.at(cfn, arg, cnode)
                names = {n.id for n in ast.walk(e) if isinstance(n, ast.Name)}
                if names & set(binding) or ('self' in names and any(k.startswith('self.') for k in binding)):
                    # compound expression over bound parameters: evaluate structurally where possible
                    if isinstance(e, ast.Attribute):
                        base = val(e.value)
                        if base is not None and strip_opt(base.type)[0] == 'cls':
                            env = self.cg.env(fn)
                            t = env._attr_type(strip_opt(base.type), e.attr)
                            inv = self._invariant_truthy(strip_opt(base.type)[1], e.attr)
                            return AbsVal(type=t, none=NO if t[0] not in ('opt', 'any', 'none') else MAYBE,
                                          truthy=YES if inv else MAYBE)
                    return None
            return self.at(fn, e, node)

        if isinstance(cond, ast.UnaryOp) and isinstance(cond.op, ast.Not):
            r = self.eval_cond(fn, cond.operand, node, binding)
            return {YES: NO, NO: YES}.get(r, MAYBE)
        if isinstance(cond, ast.BoolOp):
            rs = [self.eval_cond(fn, v, node, binding) for v in cond.values]
            if isinstance(cond.op, ast.And):
                if NO in rs:
                    return NO
                return YES if all(r == YES for r in rs) else MAYBE
            if YES in rs:
                return YES
            return NO if all(r == NO for r in rs) else MAYBE
        if isinstance(cond, ast.Call) and isinstance(cond.func, ast.Name):
            fname = cond.func.id
            if fname == 'isinstance' and len(cond.args) == 2:
                v = val(cond.args[0])
                bnd = {k: (b[0], b[1]) for k, b in (binding or {}).items()}
                tt = self.resolve_type_expr(fn, cond.args[1], bnd)
                if v is None or tt is None:
                    return MAYBE
                if v.none == YES:
                    return NO
                if v.none != NO:
                    sub = self.subtype(v.type, tt)
                    return NO if sub is False else MAYBE
                sub = self.subtype(v.type, tt)
                return YES if sub is True else NO if sub is False else MAYBE
            if fname == 'hasattr' and len(cond.args) == 2 and isinstance(cond.args[1], ast.Constant):
                v = val(cond.args[0])
                if v is None or v.none != NO:
                    return MAYBE
                t = strip_opt(v.type)
                attr = cond.args[1].value
                if attr == '__iter__':
                    if t[0] in ('list', 'set', 'dict', 'tuple', 'str'):
                        return YES
                    if t[0] in ('int', 'bool', 'float', 'none'):
                        return NO
                return MAYBE
            if fname in ('is_strlist_instance', 'is_strset_instance') and cond.args:
                # package predicates: "list (set) all of whose items are str"
                v = val(cond.args[0])
                if v is None or v.none != NO:
                    return MAYBE
                t = strip_opt(v.type)
                want = 'list' if fname == 'is_strlist_instance' else 'set'
                if t[0] == want and t[1] == ('str',):
                    return YES
                if t[0] == want and t[1] == ANY:
                    return MAYBE
                if t[0] in ('any', 'union'):
                    return MAYBE
                if t[0] != want:
                    return NO
                return MAYBE
            if fname == 'len':
                return MAYBE
        if isinstance(cond, ast.Compare) and len(cond.ops) == 1:
            op, lhs, rhs = cond.ops[0], cond.left, cond.comparators[0]
            if isinstance(rhs, ast.Constant) and rhs.value is None and isinstance(op, (ast.Is, ast.IsNot, ast.Eq, ast.NotEq)):
                v = val(lhs)
                if v is None or v.none == MAYBE:
                    return MAYBE
                is_none = v.none == YES
                return YES if is_none == isinstance(op, (ast.Is, ast.Eq)) else NO
            if isinstance(op, (ast.Eq, ast.NotEq, ast.Is, ast.IsNot)):
                a, b = val(lhs), val(rhs)
                if a is not None and b is not None:
                    if a.enum and b.enum:
                        same = a.enum == b.enum
                        return YES if same == isinstance(op, (ast.Eq, ast.Is)) else NO
                    if a.has_const and b.has_const and isinstance(op, (ast.Eq, ast.NotEq)):
                        return YES if (a.const == b.const) == isinstance(op, ast.Eq) else NO
            if isinstance(op, (ast.Gt, ast.GtE, ast.Lt, ast.LtE, ast.Eq, ast.NotEq)) and isinstance(lhs, ast.Call) and \
                    isinstance(lhs.func, ast.Name) and lhs.func.id == 'len' and lhs.args and \
                    isinstance(rhs, ast.Constant) and isinstance(rhs.value, int):
                v = val(lhs.args[0])
                if v is not None and isinstance(op, ast.Gt) and rhs.value == 0:
                    return v.truthy if v.truthy in (YES, NO) else MAYBE
                if v is not None and isinstance(op, ast.Eq) and rhs.value == 0:
                    return {YES: NO, NO: YES}.get(v.truthy, MAYBE)
            return MAYBE
        # plain truthiness
        v = val(cond)
        if v is None:
            return MAYBE
        return v.truthy if v.truthy in (YES, NO) else MAYBE

    # class invariants established by __post_init__ of frozen dataclasses -----------------------------------
    def _invariant_truthy(self, cls_fq: str, attr_path: str) -> bool:
        return attr_path in self.class_invariants(cls_fq)

    def class_invariants(self, cls_fq: str) -> Dict[str, ast.AST]:
        """{'a.b': guard node} for every `if not self.a.b: raise` in __post_init__ of a frozen dataclass."""
        from .flow import always_raises
        c = self.prog.classes.get(cls_fq)
        out: Dict[str, ast.AST] = {}
        if c is None or not (c.is_dataclass and c.frozen):
            return out
        post = self.prog.lookup_method(c, '__post_init__')
        if post is None:
            return out
        for n in post.node.body:
            if isinstance(n, ast.If) and always_raises(n.body) and not n.orelse:
                for cond, pol in atomic_facts([(n.test, False)]):
                    if pol and isinstance(cond, ast.Attribute):
                        txt = ast.unparse(cond)
                        if txt.startswith('self.'):
                            out[txt[5:]] = n
        return out
