"""Specialisation of a function for constant bindings, by constant folding over the syntax tree (no execution).

`residual(prog, fn, {'cls': 'component'})` answers "which statements of `fn` remain when the local `cls` is the string
'component'": comparisons with literals, lookups in constant tables of the package (`TABLE[k]`, `TABLE.get(k)`, through
helper functions), fields of the record objects such a table holds, tuple unpacking of its entries, `getattr(obj, <const>)`
and branches on all of these are folded; calls of `self.<method>(...)` statements are replaced by the (specialised) body
of the method.  What cannot be folded stays as it is.  An if / elif chain, a dispatch table of functions, a table of
handler names and a table of records all leave the same residual statements per key."""
from __future__ import annotations

import ast
import copy
from typing import Any, Dict, List, Optional, Tuple

from .model import Program, FuncInfo, ClassInfo, Module

UNKNOWN = object()


TRUTHY = 'an object that is true'


def _is_truthy_marker(v) -> bool:
    return v == TRUTHY or (isinstance(v, ast.Constant) and v.value == TRUTHY)


class _Folder:
    def __init__(self, prog: Program, fn: FuncInfo, env: Dict[str, ast.expr], depth: int = 0, stack: Tuple[str, ...] = (),
                 assume: Optional[Dict[str, ast.expr]] = None):
        self.prog, self.fn, self.mod = prog, fn, fn.module
        self.stack = stack + (fn.fq,)
        self.assume = {k: v for k, v in (assume or {}).items() if not _is_truthy_marker(v)}
        #                                     ^ source text of an expression on `self` -> the constant-like node it stands for
        self.truthy = {k for k, v in (assume or {}).items() if _is_truthy_marker(v)}    # ... -> "some object that is true"
        self.env = dict(env)            # local name -> constant-like AST node (Constant, table display, record ctor call ...)
        self.preset = set(env)
        self.depth = depth
        self.stored = {}
        for x in ast.walk(fn.node):
            if isinstance(x, ast.Name) and isinstance(x.ctx, ast.Store):
                self.stored[x.id] = self.stored.get(x.id, 0) + 1
        # names that are only ever bound by plain `name = value` statements outside loops and nested functions: their value
        # can be followed statement by statement even when they are bound more than once (`p = make(); p = p.refined()`)
        plain: Dict[str, int] = {}

        def scan(stmts, in_loop):
            for st_ in stmts:
                if isinstance(st_, ast.Assign) and len(st_.targets) == 1 and isinstance(st_.targets[0], ast.Name) and not in_loop:
                    plain[st_.targets[0].id] = plain.get(st_.targets[0].id, 0) + 1
                if isinstance(st_, (ast.FunctionDef, ast.AsyncFunctionDef, ast.ClassDef)):
                    continue
                for fld in ('body', 'orelse', 'finalbody'):
                    b_ = getattr(st_, fld, None)
                    if isinstance(b_, list) and b_ and isinstance(b_[0], ast.stmt):
                        scan(b_, in_loop or isinstance(st_, (ast.For, ast.While, ast.AsyncFor)))
                for h_ in getattr(st_, 'handlers', []) or []:
                    scan(h_.body, in_loop)
        scan(fn.node.body, False)
        self.sequential = {k for k, v in plain.items() if v == self.stored.get(k, 0) and k not in [a.arg for a in fn.params()]}
        self._fresh = [0]

    # -- expressions ---------------------------------------------------------------------------------------------
    def const_node(self, e: ast.expr) -> Optional[ast.expr]:
        """The constant-like node `e` stands for (a Constant, a display, a record constructor call of the package), or None."""
        if isinstance(e, ast.Constant):
            return e
        if isinstance(e, (ast.Dict, ast.Tuple, ast.List)) and not any(isinstance(x, ast.Name) and x.id in self.stored
                                                                       for x in ast.walk(e)):
            return e if all(isinstance(x, (ast.Dict, ast.Tuple, ast.List, ast.Constant, ast.Name, ast.Attribute, ast.Call,
                                           ast.keyword, ast.expr_context)) for x in ast.walk(e)) else None
        if isinstance(e, ast.Name):
            if e.id in self.env:
                return self.env[e.id]
            if e.id in self.stored or e.id in [a.arg for a in self.fn.params()]:
                return None
            sym = self.prog.resolve_name(self.mod, e.id)
            if isinstance(sym, tuple) and sym[0] == 'const':
                node = sym[1]
                if isinstance(node, ast.Call) and getattr(node.func, 'id', getattr(node.func, 'attr', '')) == 'MappingProxyType' \
                        and len(node.args) == 1:
                    node = node.args[0]
                return node if isinstance(node, (ast.Constant, ast.Dict, ast.Tuple, ast.List, ast.Call)) else None
            if isinstance(sym, (FuncInfo, ClassInfo)):
                return e
            return None
        if isinstance(e, ast.Attribute) or (isinstance(e, ast.Name) and e.id not in self.stored):
            sym = self.prog.resolve_expr_symbol(self.mod, e)
            if isinstance(sym, (FuncInfo, ClassInfo)) or (isinstance(sym, tuple) and sym[0] == 'enum_member'):
                return e        # a function / class / enum member of the package
        if isinstance(e, ast.Call) and isinstance(e.func, (ast.Name, ast.Attribute)):
            sym = self.prog.resolve_expr_symbol(self.mod, e.func)
            if isinstance(sym, ClassInfo) and (sym.is_dataclass or any(str(b).split('.')[-1] == 'NamedTuple' for b in sym.bases)) \
                    and not any(isinstance(x, ast.Name) and (x.id in self.stored) and not (
                        self.stored.get(x.id) == 1 and x.id in self.sequential) for x in ast.walk(e)):
                return e        # a record object of the package built from constants / references / write-once locals
        return None

    def _all_assumptions(self) -> Dict[str, Any]:
        d: Dict[str, Any] = dict(self.assume)
        d.update({k: TRUTHY for k in self.truthy})
        return d

    def truth(self, e: ast.expr) -> Optional[bool]:
        """truthiness of a folded expression, when it is decided"""
        if self.truthy and isinstance(e, (ast.Attribute, ast.Name)) and ast.unparse(e) in self.truthy:
            return True
        if isinstance(e, ast.Constant):
            return bool(e.value)
        if isinstance(e, (ast.Dict,)):
            return bool(e.keys)
        if isinstance(e, (ast.Tuple, ast.List, ast.Set)):
            return bool(e.elts)
        c = self.const_node(e)
        if c is not None and not isinstance(c, (ast.Constant, ast.Dict, ast.Tuple, ast.List)):
            return True         # an enum member, a function, a class, a record object
        return None

    def fold(self, e: ast.expr) -> ast.expr:
        """`e` with everything foldable folded (a new tree where something changed)."""
        if self.assume and isinstance(e, (ast.Attribute, ast.Name, ast.Call, ast.Subscript)):
            key = ast.unparse(e)
            if key in self.assume:
                return ast.copy_location(copy.deepcopy(self.assume[key]), e)
        if isinstance(e, ast.Name) and isinstance(e.ctx, ast.Load) and e.id in self.env and \
                isinstance(self.env[e.id], (ast.Constant, ast.Attribute, ast.Name)):
            return ast.copy_location(copy.deepcopy(self.env[e.id]), e)
        if isinstance(e, ast.UnaryOp) and isinstance(e.op, ast.Not):
            v = self.fold(e.operand)
            if self.truth(v) is not None:
                return ast.copy_location(ast.Constant(value=not self.truth(v)), e)
            return ast.copy_location(ast.UnaryOp(op=ast.Not(), operand=v), e)
        if isinstance(e, ast.BoolOp):
            vals = [self.fold(v) for v in e.values]
            out = []
            for v in vals:
                tv = self.truth(v)
                if tv is not None:
                    if isinstance(e.op, ast.And) and not tv:
                        return ast.copy_location(ast.Constant(value=False), e) if not out else \
                            ast.copy_location(ast.BoolOp(op=e.op, values=out + [v]), e)
                    if isinstance(e.op, ast.Or) and tv:
                        return ast.copy_location(ast.Constant(value=True), e) if not out else \
                            ast.copy_location(ast.BoolOp(op=e.op, values=out + [v]), e)
                    continue
                out.append(v)
            if not out:
                return ast.copy_location(ast.Constant(value=isinstance(e.op, ast.And)), e)
            return out[0] if len(out) == 1 else ast.copy_location(ast.BoolOp(op=e.op, values=out), e)
        if isinstance(e, ast.Compare) and len(e.ops) == 1:
            a, b = self.fold(e.left), self.fold(e.comparators[0])
            ca, cb = self.const_node(a), self.const_node(b)
            op = e.ops[0]
            if isinstance(ca, ast.Constant) and isinstance(cb, ast.Constant):
                table = {ast.Eq: ca.value == cb.value, ast.NotEq: ca.value != cb.value,
                         ast.Is: (ca.value is cb.value) if cb.value is None or ca.value is None else ca.value == cb.value,
                         ast.IsNot: (ca.value is not cb.value) if cb.value is None or ca.value is None else ca.value != cb.value}
                if type(op) in table:
                    return ast.copy_location(ast.Constant(value=bool(table[type(op)])), e)
            if ca is not None and cb is not None and isinstance(op, (ast.Eq, ast.NotEq, ast.Is, ast.IsNot)) and \
                    isinstance(ca, ast.Attribute) and isinstance(cb, ast.Attribute):
                sa, sb = self.prog.resolve_expr_symbol(self.mod, ca), self.prog.resolve_expr_symbol(self.mod, cb)
                if isinstance(sa, tuple) and isinstance(sb, tuple) and sa[0] == sb[0] == 'enum_member':
                    same = sa[1] is sb[1] and sa[2] == sb[2]
                    return ast.copy_location(ast.Constant(value=same if isinstance(op, (ast.Eq, ast.Is)) else not same), e)
            if isinstance(ca, ast.Constant) and ca.value is None and cb is not None and not isinstance(cb, ast.Constant) and \
                    isinstance(op, (ast.Is, ast.IsNot, ast.Eq, ast.NotEq)):
                return ast.copy_location(ast.Constant(value=isinstance(op, (ast.IsNot, ast.NotEq))), e)
            if isinstance(cb, ast.Constant) and cb.value is None and isinstance(op, (ast.Is, ast.IsNot, ast.Eq, ast.NotEq)) and \
                    ca is not None and not isinstance(ca, ast.Constant):
                return ast.copy_location(ast.Constant(value=isinstance(op, (ast.IsNot, ast.NotEq))), e)     # a table entry is not None
            if isinstance(ca, ast.Constant) and isinstance(op, (ast.In, ast.NotIn)) and isinstance(cb, (ast.Dict, ast.Tuple, ast.List)):
                keys = cb.keys if isinstance(cb, ast.Dict) else cb.elts
                if all(isinstance(k, ast.Constant) for k in keys):
                    r = ca.value in [k.value for k in keys]
                    return ast.copy_location(ast.Constant(value=r if isinstance(op, ast.In) else not r), e)
            return ast.copy_location(ast.Compare(left=a, ops=e.ops, comparators=[b]), e)
        if isinstance(e, ast.IfExp):
            t = self.fold(e.test)
            if self.truth(t) is not None:
                return self.fold(e.body if self.truth(t) else e.orelse)
            return ast.copy_location(ast.IfExp(test=t, body=self.fold(e.body), orelse=self.fold(e.orelse)), e)
        if isinstance(e, ast.Subscript):
            base = self.const_node(self.fold(e.value))
            k = self.fold(e.slice)
            if isinstance(base, ast.Dict) and isinstance(k, ast.Constant):
                for kk, vv in zip(base.keys, base.values):
                    if isinstance(kk, ast.Constant) and kk.value == k.value:
                        return vv
            if isinstance(base, (ast.Tuple, ast.List)) and isinstance(k, ast.Constant) and isinstance(k.value, int) and \
                    -len(base.elts) <= k.value < len(base.elts):
                return base.elts[k.value]
            return e
        if isinstance(e, ast.Attribute):
            base = self.const_node(self.fold(e.value))
            if isinstance(base, ast.Call):
                sym = self.prog.resolve_expr_symbol(self.mod, base.func) if isinstance(base.func, (ast.Name, ast.Attribute)) else None
                if isinstance(sym, ClassInfo):
                    fields = self._record_fields(sym)
                    args = {}
                    for i, a in enumerate(base.args):
                        if i < len(fields):
                            args[fields[i]] = a
                    for k in base.keywords:
                        if k.arg:
                            args[k.arg] = k.value
                    if e.attr in args:
                        return args[e.attr]
                    if e.attr in fields:
                        dflt = self.prog.class_fields(sym)[e.attr][1]
                        if isinstance(dflt, ast.Constant):
                            return dflt
            return e
        if isinstance(e, ast.Call):
            return self.fold_call(e)
        return e

    def _record_fields(self, cls: ClassInfo) -> List[str]:
        return list(self.prog.class_fields(cls))

    def _record(self, e: ast.expr):
        """(class, {field: expr}) when `e` folds to a record object of the package written as a constructor call."""
        base = self.const_node(self.fold(e))
        if isinstance(base, ast.Call) and isinstance(base.func, (ast.Name, ast.Attribute)):
            sym = self.prog.resolve_expr_symbol(self.mod, base.func)
            if isinstance(sym, ClassInfo) and (sym.is_dataclass or any(str(b).split('.')[-1] == 'NamedTuple' for b in sym.bases)):
                fields = self._record_fields(sym)
                args = {}
                for i, a in enumerate(base.args):
                    if isinstance(a, ast.Starred) or i >= len(fields):
                        return None
                    args[fields[i]] = a
                for k in base.keywords:
                    if k.arg is None:
                        return None
                    args[k.arg] = k.value
                return sym, args, base
        return None

    def fold_call(self, e: ast.Call) -> ast.expr:
        f = e.func
        if isinstance(f, ast.Attribute) and f.attr == '_replace' and not e.args and e.keywords and all(k.arg for k in e.keywords):
            rec = self._record(f.value)
            if rec is not None and any(str(b).split('.')[-1] == 'NamedTuple' for b in rec[0].bases):
                cls_, args_, base_ = rec
                fields = self._record_fields(cls_)
                if all(k.arg in fields for k in e.keywords):
                    new_args = dict(args_)
                    for k in e.keywords:
                        new_args[k.arg] = self.deep(k.value)
                    return ast.copy_location(ast.Call(func=copy.deepcopy(base_.func), args=[], keywords=[
                        ast.keyword(arg=fld, value=new_args[fld]) for fld in fields if fld in new_args]), e)
        if isinstance(f, ast.Name) and f.id == 'isinstance' and len(e.args) == 2:
            a = self.fold(e.args[0])
            if isinstance(a, ast.Constant) and isinstance(e.args[1], ast.Name):
                py = {'str': str, 'int': int, 'bool': bool, 'dict': dict, 'list': list, 'float': float}.get(e.args[1].id)
                if py is not None:
                    return ast.copy_location(ast.Constant(value=isinstance(a.value, py)), e)
            if isinstance(a, (ast.Attribute, ast.Name)) and isinstance(e.args[1], (ast.Name, ast.Attribute)):
                es_ = self.prog.resolve_expr_symbol(self.mod, a)
                cs_ = self.prog.resolve_expr_symbol(self.mod, e.args[1])
                if isinstance(es_, tuple) and es_[0] == 'enum_member' and isinstance(cs_, ClassInfo):
                    return ast.copy_location(ast.Constant(value=es_[1] is cs_ or self.prog.is_subclass(es_[1].fq, cs_.fq)), e)
            return e
        if isinstance(f, ast.Name) and f.id == 'getattr' and len(e.args) == 2:
            nm = self.fold(e.args[1])
            if isinstance(nm, ast.Constant) and isinstance(nm.value, str):
                return ast.copy_location(ast.Attribute(value=e.args[0], attr=nm.value, ctx=ast.Load()), e)
            return e
        if isinstance(f, ast.Attribute) and f.attr == 'get' and 1 <= len(e.args) <= 2:
            base = self.const_node(self.fold(f.value))
            k = self.fold(e.args[0])
            if isinstance(base, ast.Dict) and isinstance(k, ast.Constant):
                for kk, vv in zip(base.keys, base.values):
                    if isinstance(kk, ast.Constant) and kk.value == k.value:
                        return vv
                if all(isinstance(kk, ast.Constant) for kk in base.keys):
                    return self.fold(e.args[1]) if len(e.args) == 2 else ast.copy_location(ast.Constant(value=None), e)
            if isinstance(base, ast.Dict) and isinstance(k, ast.Constant) and k.value is None and base.keys and all(
                    isinstance(kk, ast.Attribute) and isinstance(self.prog.resolve_expr_symbol(self.mod, kk), tuple) for kk in base.keys):
                return self.fold(e.args[1]) if len(e.args) == 2 else ast.copy_location(ast.Constant(value=None), e)   # None is no member
            if isinstance(base, ast.Dict) and isinstance(k, ast.Attribute):
                # a table keyed by enum members, looked up with an enum member
                sk = self.prog.resolve_expr_symbol(self.mod, k)
                if isinstance(sk, tuple) and sk[0] == 'enum_member':
                    syms = [self.prog.resolve_expr_symbol(self.mod, kk) if isinstance(kk, (ast.Attribute, ast.Name)) else None for kk in base.keys]
                    if all(isinstance(x, tuple) and x[0] == 'enum_member' for x in syms):
                        for x, vv in zip(syms, base.values):
                            if x[1] is sk[1] and x[2] == sk[2]:
                                return vv
                        return self.fold(e.args[1]) if len(e.args) == 2 else ast.copy_location(ast.Constant(value=None), e)
            return e
        # a callee that folds to a function of the package: call it by name
        if isinstance(f, (ast.Attribute, ast.Subscript, ast.Call, ast.Name)):
            g = self.fold(f) if not isinstance(f, ast.Name) else (self.env.get(f.id) if f.id in self.env else f)
            if g is not f and g is not None and isinstance(g, (ast.Name, ast.Attribute)):
                e = ast.copy_location(ast.Call(func=g, args=e.args, keywords=e.keywords), e)
                f = g
        # a method of the same object: specialise it under the same assumptions; a single remaining `return E` is inlined
        if isinstance(f, ast.Attribute) and isinstance(f.value, ast.Name) and f.value.id == 'self' and self.fn.cls is not None \
                and self.depth < 4:
            m = self.prog.lookup_method(self.fn.cls, f.attr)
            if m is not None and not m.is_property and m.fq not in self.stack and not e.keywords and \
                    not any(isinstance(a, ast.Starred) for a in e.args):
                params = [a.arg for a in m.params()]
                if not m.is_static and params[:1] == ['self']:
                    params = params[1:]
                if len(e.args) == len(params):
                    binding = dict(zip(params, [self.fold(a) for a in e.args]))
                    cenv = {k: c for k, v in binding.items() for c in [self.const_node(v)] if c is not None}
                    sub = _Folder(self.prog, m, cenv, self.depth + 1, self.stack, self._all_assumptions())
                    body, _l = sub.block(m.node.body)
                    body = [b for b in body if not isinstance(b, ast.Pass)]
                    as_expr = _guards_as_expression(body)
                    if as_expr is not None and len(body) > 1:
                        body = [ast.copy_location(ast.Return(value=as_expr), body[-1])]
                    if len(body) == 1 and isinstance(body[0], ast.Return) and body[0].value is not None:
                        uses = {}
                        for x in ast.walk(body[0].value):
                            if isinstance(x, ast.Name):
                                uses[x.id] = uses.get(x.id, 0) + 1
                        simple = all(isinstance(v, (ast.Name, ast.Attribute, ast.Constant)) or uses.get(k, 0) <= 1
                                     for k, v in binding.items())
                        bound_comp = {t.id for x in ast.walk(body[0].value) if isinstance(x, ast.comprehension)
                                      for t in ast.walk(x.target) if isinstance(t, ast.Name)}
                        if simple and not (bound_comp & {n_.id for v in binding.values() for n_ in ast.walk(v) if isinstance(n_, ast.Name)}):
                            class Sub(ast.NodeTransformer):
                                def visit_Name(s_, node):
                                    if node.id in binding and isinstance(node.ctx, ast.Load):
                                        return copy.deepcopy(binding[node.id])
                                    return node
                            return ast.copy_location(Sub().visit(copy.deepcopy(body[0].value)), e)
        # helper of the package with several returns: specialise it with the constant arguments
        if isinstance(f, (ast.Name, ast.Attribute)) and self.depth < 4:
            sym = self.prog.resolve_expr_symbol(self.mod, f)
            if isinstance(sym, FuncInfo) and sym is not self.fn and sym.module.name.startswith('dznpy'):
                bind = self.prog.bind_call(self.mod, e)
                cenv = {}
                for k, v in bind.items():
                    c = self.const_node(self.fold(v))
                    if c is not None:
                        cenv[k] = c
                if cenv:
                    r = residual(self.prog, sym, cenv, self.depth + 1)
                    if len(r) == 1 and isinstance(r[0], ast.Return) and r[0].value is not None:
                        sub = _Folder(self.prog, sym, cenv, self.depth + 1)
                        c = sub.const_node(r[0].value)
                        if c is not None:
                            return c
        return e

    # -- statements ----------------------------------------------------------------------------------------------
    def block(self, stmts: List[ast.stmt]) -> Tuple[List[ast.stmt], bool]:
        """(residual statements, whether the block certainly leaves the function)."""
        out: List[ast.stmt] = []
        for st in stmts:
            if isinstance(st, ast.Expr) and isinstance(st.value, ast.Constant):
                continue
            if isinstance(st, ast.If):
                t = self.fold(st.test)
                if self.truth(t) is not None:
                    body, leaves = self.block(st.body if self.truth(t) else st.orelse)
                    out.extend(body)
                    if leaves:
                        return out, True
                    continue
                env0 = dict(self.env)
                b1, l1 = self.block(st.body)
                env1 = self.env
                self.env = dict(env0)
                b2, l2 = self.block(st.orelse)
                env2 = self.env
                if l1 and not l2:
                    self.env = env2
                elif l2 and not l1:
                    self.env = env1
                else:
                    self.env = {k: v for k, v in env1.items() if k in env2 and env2[k] is v}
                out.append(ast.copy_location(ast.If(test=t, body=b1 or [ast.Pass()], orelse=b2), st))
                if l1 and l2:
                    return out, True
                continue
            if isinstance(st, (ast.For, ast.While)):
                # bindings made by the caller for names assigned in the loop body hold in every iteration
                body = []
                for b_ in st.body:
                    if isinstance(b_, (ast.Assign, ast.AnnAssign)):
                        tg = b_.targets[0] if isinstance(b_, ast.Assign) and len(b_.targets) == 1 else getattr(b_, 'target', None)
                        if isinstance(tg, ast.Name) and tg.id in self.preset and self.stored.get(tg.id, 0) == 1:
                            continue
                    body.append(b_)
                saved = dict(self.env)
                nb, _l = self.block(body)
                self.env = saved
                new = copy.copy(st)
                new.body = nb or [ast.Pass()]
                out.append(new)
                continue
            if isinstance(st, ast.Return):
                if st.value is not None:
                    inl = self._inline_value_call(st.value)
                    if inl is not None:
                        out.extend(self.block(inl[0])[0])
                        st = ast.copy_location(ast.Return(value=inl[1]), st)
                val = self.deep(st.value) if st.value is not None else None
                # `return helper(consts)` where the helper, specialised with those constants, only raises: the raise itself
                if isinstance(val, ast.Call) and isinstance(val.func, (ast.Name, ast.Attribute)) and self.depth < 4:
                    sym = self.prog.resolve_expr_symbol(self.mod, val.func)
                    if isinstance(sym, FuncInfo) and sym is not self.fn and sym.module.name.startswith('dznpy') and \
                            sym.fq not in self.stack:
                        bind = self.prog.bind_call(self.mod, val)
                        cenv = {k: c for k, v in bind.items() for c in [self.const_node(self.fold(v))] if c is not None}
                        if cenv and len(cenv) == len(bind):
                            r = residual(self.prog, sym, cenv, self.depth + 1)
                            r = [x for x in r if not isinstance(x, ast.Pass)]
                            if len(r) == 1 and isinstance(r[0], ast.Raise):
                                out.append(r[0])
                                return out, True
                out.append(ast.copy_location(ast.Return(value=val), st))
                return out, True
            if isinstance(st, ast.Raise):
                out.append(st)
                return out, True
            if isinstance(st, (ast.Assign, ast.AnnAssign)) and getattr(st, 'value', None) is not None:
                tgt = st.targets[0] if isinstance(st, ast.Assign) and len(st.targets) == 1 else getattr(st, 'target', None)
                if (isinstance(tgt, ast.Name) and (self.stored.get(tgt.id, 0) == 1 or tgt.id in self.sequential)) or \
                        (isinstance(tgt, ast.Attribute) and isinstance(tgt.value, ast.Name) and tgt.value.id == 'self'):
                    inl = self._inline_value_call(st.value)
                    if inl is not None:
                        pre, val0 = inl
                        out.extend(self.block(pre)[0])
                        st = ast.copy_location(ast.Assign(targets=[tgt], value=val0), st)
                val = self.deep(st.value)
                c = self.const_node(val)
                if isinstance(tgt, ast.Name) and (self.stored.get(tgt.id, 0) == 1 or tgt.id in self.sequential) and c is not None:
                    self.env[tgt.id] = c
                    if isinstance(c, ast.Call) and any(isinstance(x, ast.Name) and x.id in self.stored for x in ast.walk(c)):
                        # a record over write-once locals: known to the folder, and still defined for the code that names it
                        new = copy.copy(st)
                        new.value = val
                        out.append(new)
                    continue
                if isinstance(tgt, ast.Name) and tgt.id not in self.preset:
                    self.env.pop(tgt.id, None)
                if isinstance(tgt, (ast.Tuple, ast.List)) and isinstance(c, (ast.Tuple, ast.List)) and len(c.elts) == len(tgt.elts) and \
                        all(isinstance(t_, ast.Name) and self.stored.get(t_.id, 0) == 1 for t_ in tgt.elts):
                    for t_, v_ in zip(tgt.elts, c.elts):
                        self.env[t_.id] = v_
                    continue
                new = copy.copy(st)
                new.value = val
                out.append(new)
                continue
            if isinstance(st, ast.Expr) and isinstance(st.value, ast.Call):
                call = self.fold(st.value)
                inl = self._inline_self_call(call) if isinstance(call, ast.Call) else None
                if inl is not None:
                    out.extend(inl)
                    continue
                out.append(ast.copy_location(ast.Expr(value=self._fold_args(call)), st))
                continue
            out.append(self._fold_stmt_exprs(st))
        return out, False

    def deep(self, e: ast.expr) -> ast.expr:
        """fold `e` and, where the top level does not fold, everything inside it"""
        r = self.fold(e)
        if r is e:
            return self._fold_args(e)
        return r

    def _fold_args(self, e: ast.expr) -> ast.expr:
        """fold inside the arguments of a residual expression"""
        class T(ast.NodeTransformer):
            def generic_visit(s, node):
                node = super().generic_visit(node)
                if isinstance(node, ast.expr):
                    try:
                        return self.fold(node)
                    except Exception:       # noqa: BLE001 - folding is best effort
                        return node
                return node
        return T().visit(copy.deepcopy(e))

    def _fold_stmt_exprs(self, st: ast.stmt) -> ast.stmt:
        return self._fold_args_stmt(st)

    def _fold_args_stmt(self, st: ast.stmt) -> ast.stmt:
        class T(ast.NodeTransformer):
            def generic_visit(s, node):
                node = super().generic_visit(node)
                if isinstance(node, ast.expr):
                    try:
                        return self.fold(node)
                    except Exception:       # noqa: BLE001
                        return node
                return node
        return T().visit(copy.deepcopy(st))

    def _inline_value_call(self, e: ast.expr) -> Optional[Tuple[List[ast.stmt], ast.expr]]:
        """`x = callee(args)` / `return callee(args)` where the callee - a function of the package, `Class.classmethod(...)`,
        or a method of a record object this folder knows (`prefixes.bulletized(...)`) - specialised with the constant
        arguments is a straight line `a = ..; b = ..; return E`: (those assignments with the locals renamed apart, E), with
        the remaining parameters replaced by the (side-effect free) argument expressions.  None when it is not of that form."""
        if not isinstance(e, ast.Call) or self.depth >= 4 or not isinstance(e.func, (ast.Name, ast.Attribute)):
            return None
        if any(isinstance(a, ast.Starred) for a in e.args) or any(k.arg is None for k in e.keywords):
            return None
        f = e.func
        m: Optional[FuncInfo] = None
        bound: Dict[str, ast.expr] = {}
        sym = self.prog.resolve_expr_symbol(self.mod, f)
        if isinstance(sym, FuncInfo) and sym.cls is None and sym.parent is None and sym.module is self.fn.module:
            m = sym         # (helpers of other modules keep their name: the rules know the package's utilities by it)
        elif isinstance(f, ast.Attribute):
            owner = self.prog.resolve_expr_symbol(self.mod, f.value) if isinstance(f.value, (ast.Name, ast.Attribute)) else None
            if isinstance(owner, ClassInfo):
                mm = self.prog.lookup_method(owner, f.attr)
                if mm is not None and getattr(mm, 'is_classmethod', False):
                    m, bound = mm, {mm.params()[0].arg: f.value}
                elif mm is not None and mm.is_static:
                    m = mm
            elif not (isinstance(f.value, ast.Name) and f.value.id == 'self'):
                # a method of an enum member this folder knows (`self.indentor.whitespace(n)` under `self.indentor` == SPACES)
                recv_ = self.fold(f.value)
                es_ = self.prog.resolve_expr_symbol(self.mod, recv_) if isinstance(recv_, (ast.Attribute, ast.Name)) else None
                if isinstance(es_, tuple) and es_[0] == 'enum_member':
                    mm = self.prog.lookup_method(es_[1], f.attr)
                    if mm is not None and not mm.is_property and not mm.is_static and not getattr(mm, 'is_classmethod', False):
                        m, bound = mm, {mm.params()[0].arg: recv_}
                rec = self._record(f.value) if m is None else None
                if rec is not None:
                    mm = self.prog.lookup_method(rec[0], f.attr)
                    if mm is not None and not mm.is_property and not mm.is_static and not getattr(mm, 'is_classmethod', False):
                        m, bound = mm, {mm.params()[0].arg: rec[2]}
        if m is None or m is self.fn or m.fq in self.stack or not m.module.name.startswith('dznpy'):
            return None
        if any(isinstance(x, (ast.Yield, ast.YieldFrom, ast.Global, ast.Nonlocal, ast.Await)) for x in ast.walk(m.node)):
            return None
        a = m.node.args
        if a.vararg or a.kwarg:
            return None
        names = [p_.arg for p_ in list(a.posonlyargs) + list(a.args)]
        free = [n_ for n_ in names if n_ not in bound]
        if len(e.args) > len(free):
            return None
        binding: Dict[str, ast.expr] = dict(bound)
        for n_, v_ in zip(free, e.args):
            binding[n_] = self.deep(v_)
        for k in e.keywords:
            if k.arg in binding or k.arg not in names + [x.arg for x in a.kwonlyargs]:
                return None
            binding[k.arg] = self.deep(k.value)
        pos_all = list(a.posonlyargs) + list(a.args)
        defaults = dict(zip([x.arg for x in pos_all][len(pos_all) - len(a.defaults):], a.defaults))
        defaults.update({x.arg: d for x, d in zip(a.kwonlyargs, a.kw_defaults) if d is not None})
        for n_ in names + [x.arg for x in a.kwonlyargs]:
            if n_ not in binding:
                if n_ in defaults and isinstance(defaults[n_], ast.Constant):
                    binding[n_] = defaults[n_]
                else:
                    return None

        def pure(x_: ast.expr) -> bool:
            return all(isinstance(y, (ast.Name, ast.Attribute, ast.Constant, ast.expr_context)) for y in ast.walk(x_))
        cenv = {}
        for k_, v_ in binding.items():
            c_ = self.const_node(v_)
            if c_ is not None:
                cenv[k_] = c_
            elif not pure(v_):
                return None
        sub = _Folder(self.prog, m, cenv, self.depth + 1, self.stack)
        if any(sub.stored.get(k_, 0) for k_ in binding):
            return None          # the callee rebinds a parameter
        body = [st for st in m.node.body if not (isinstance(st, ast.Expr) and isinstance(st.value, ast.Constant))]
        res, _leaves = sub.block(body)
        res = [st for st in res if not isinstance(st, ast.Pass)]
        if not res or not isinstance(res[-1], ast.Return) or res[-1].value is None:
            return None
        for st in res[:-1]:
            if not (isinstance(st, ast.Assign) and len(st.targets) == 1 and isinstance(st.targets[0], ast.Name)):
                return None
        self._fresh[0] += 1
        tag = f'__k{self.depth}_{self._fresh[0]}'
        local = {st.targets[0].id for st in res[:-1]}
        outer = self

        class Sub(ast.NodeTransformer):
            def visit_Name(s_, node):
                if node.id in local:
                    return ast.copy_location(ast.Name(id=node.id + tag, ctx=node.ctx), node)
                if node.id in binding and isinstance(node.ctx, ast.Load):
                    return copy.deepcopy(binding[node.id])
                return node
        new = [Sub().visit(copy.deepcopy(st)) for st in res]
        for nm in local:
            self.stored[nm + tag] = 1
            self.sequential.add(nm + tag)
        for st in new:
            for x in ast.walk(st):
                if isinstance(x, (ast.expr, ast.stmt)):
                    ast.copy_location(x, e)
        return new[:-1], new[-1].value

    def _inline_self_call(self, call: ast.Call) -> Optional[List[ast.stmt]]:
        """`self.<m>(args)` as a statement: the residual body of m with its parameters replaced by the arguments."""
        f = call.func
        if not (isinstance(f, ast.Attribute) and isinstance(f.value, ast.Name) and f.value.id == 'self' and self.fn.cls is not None
                and self.depth < 4):
            return None
        m = self.prog.lookup_method(self.fn.cls, f.attr)
        if m is None or m is self.fn or m.is_property or m.fq in self.stack:
            return None
        if any(isinstance(x, ast.Return) and x.value is not None for x in ast.walk(m.node)):
            return None
        params = [a.arg for a in m.params()]
        if not m.is_static and params[:1] == ['self']:
            params = params[1:]
        if len(call.args) > len(params) or call.keywords:
            return None
        binding = dict(zip(params, call.args))
        if len(binding) != len(params):
            return None
        cenv = {k: c for k, v in binding.items() for c in [self.const_node(self.fold(v))] if c is not None}
        body, _leaves = _Folder(self.prog, m, cenv, self.depth + 1, self.stack, self._all_assumptions()).block(m.node.body)

        class Sub(ast.NodeTransformer):
            def visit_Name(s, node):
                if node.id in binding and isinstance(node.ctx, ast.Load):
                    return copy.deepcopy(binding[node.id])
                return node
        out = [Sub().visit(copy.deepcopy(b)) for b in body if not isinstance(b, ast.Return)]
        return out


def residual(prog: Program, fn: FuncInfo, bindings: Dict[str, Any], depth: int = 0,
             assume: Optional[Dict[str, Any]] = None) -> List[ast.stmt]:
    """The statements of `fn` that remain when the given locals / parameters are bound to constants (python values or
    constant-like AST nodes) and the expressions in `assume` (source text, e.g. 'self.bullet_list.mode') stand for the given
    constants / enum members."""
    env = {k: (v if isinstance(v, ast.AST) else ast.Constant(value=v)) for k, v in bindings.items()}
    asm = {k: (v if isinstance(v, ast.AST) else ast.Constant(value=v)) for k, v in (assume or {}).items()}
    folder = _Folder(prog, fn, env, depth, (), asm)
    # locals bound by the caller are constants even though the function assigns them (e.g. `cls = get_class_value(element)`)
    body = []
    for st in fn.node.body:
        if isinstance(st, (ast.Assign, ast.AnnAssign)):
            tgt = st.targets[0] if isinstance(st, ast.Assign) and len(st.targets) == 1 else getattr(st, 'target', None)
            if isinstance(tgt, ast.Name) and tgt.id in env and folder.stored.get(tgt.id, 0) == 1:
                continue
        body.append(st)
    out, _leaves = folder.block(body)
    out2 = _streams_to_comprehensions(out)
    if out2 is not out:
        # the comprehension bodies call the mapped function with constants now: fold once more
        out, _leaves = _Folder(prog, fn, {}, depth, (), asm).block(out2)
    return out


def _guards_as_expression(body: List[ast.stmt]) -> Optional[ast.expr]:
    """`if c1: return A` ... `return Z` (guard clauses only, every return with a value)  ->  `A if c1 else ... Z`."""
    if not body or not isinstance(body[-1], ast.Return) or body[-1].value is None:
        return None
    expr = body[-1].value
    for st in reversed(body[:-1]):
        if isinstance(st, ast.If) and not st.orelse and len(st.body) == 1 and isinstance(st.body[0], ast.Return) and \
                st.body[0].value is not None:
            expr = ast.copy_location(ast.IfExp(test=st.test, body=st.body[0].value, orelse=expr), st)
        else:
            return None
    return expr


def _constant_stream(e: ast.expr):
    """An endless stream of constants written with itertools: ('repeat', c) for `repeat(c)`;
    ('head', [c1..], c) for `chain((c1, ..), repeat(c))` / `chain([c1], repeat(c))`.  None otherwise."""
    def name(f):
        return f.id if isinstance(f, ast.Name) else f.attr if isinstance(f, ast.Attribute) else ''
    if isinstance(e, ast.Call) and name(e.func) == 'repeat' and len(e.args) == 1 and not e.keywords and isinstance(e.args[0], ast.Constant):
        return 'repeat', e.args[0]
    if isinstance(e, ast.Call) and name(e.func) == 'chain' and len(e.args) == 2 and not e.keywords and \
            isinstance(e.args[0], (ast.Tuple, ast.List)) and e.args[0].elts and all(isinstance(x, ast.Constant) for x in e.args[0].elts):
        tail = _constant_stream(e.args[1])
        if tail is not None and tail[0] == 'repeat':
            return 'head', list(e.args[0].elts), tail[1]
    return None


def _streams_to_comprehensions(stmts: List[ast.stmt]) -> List[ast.stmt]:
    """`return list(map(F, A, S))` / `return [E for x, b in zip(A, S)]` with S an endless stream of constants (the function
    is applied to each element of the finite A together with the next constant) in the comprehension form the shape rules
    read:
        repeat(c):                  lines = A;  return [F(x, c) for x in lines]
        chain((c1,), repeat(c)):    lines = A;  if not lines: return [];  return [F(lines[0], c1)] + [F(x, c) for x in lines[1:]]"""
    if not stmts or not isinstance(stmts[-1], ast.Return) or stmts[-1].value is None:
        return stmts
    ret = stmts[-1]
    v = ret.value
    if isinstance(v, ast.Call) and isinstance(v.func, ast.Name) and v.func.id in ('list', 'tuple') and len(v.args) == 1 and not v.keywords:
        v = v.args[0]
    # [E for i, x in enumerate(A)]: the position is an endless stream as well - unused, or only asked whether it is the first
    if isinstance(v, (ast.ListComp, ast.GeneratorExp)) and len(v.generators) == 1 and not v.generators[0].ifs and \
            isinstance(v.generators[0].iter, ast.Call) and isinstance(v.generators[0].iter.func, ast.Name) and \
            v.generators[0].iter.func.id == 'enumerate' and len(v.generators[0].iter.args) == 1 and not v.generators[0].iter.keywords and \
            isinstance(v.generators[0].target, ast.Tuple) and len(v.generators[0].target.elts) == 2 and \
            all(isinstance(t, ast.Name) for t in v.generators[0].target.elts) and (ret.value is not v or isinstance(v, ast.ListComp)):
        iname, xname = (t.id for t in v.generators[0].target.elts)
        seq0 = v.generators[0].iter.args[0]

        def uses_i(x_) -> bool:
            return any(isinstance(y, ast.Name) and y.id == iname for y in ast.walk(x_))
        if not uses_i(v.elt):
            new_comp = ast.ListComp(elt=v.elt, generators=[ast.comprehension(target=ast.Name(id=xname, ctx=ast.Store()), iter=seq0,
                                                                             ifs=[], is_async=0)])
            new_ret = ast.copy_location(ast.Return(value=new_comp), ret)
            ast.fix_missing_locations(new_ret)
            return list(stmts[:-1]) + [new_ret]
        if isinstance(v.elt, ast.IfExp) and ast.unparse(v.elt.test) in (f'{iname} == 0', f'0 == {iname}', f'not {iname}') and \
                not uses_i(v.elt.body) and not uses_i(v.elt.orelse):
            def sub_x(e_, repl):
                class Sub(ast.NodeTransformer):
                    def visit_Name(s_, node):
                        return copy.deepcopy(repl) if node.id == xname and isinstance(node.ctx, ast.Load) else node
                return Sub().visit(copy.deepcopy(e_))
            new = list(stmts[:-1])
            if isinstance(seq0, ast.Name):
                lines = ast.Name(id=seq0.id, ctx=ast.Load())
            else:
                lines = ast.Name(id='lines__s', ctx=ast.Load())
                new.append(ast.Assign(targets=[ast.Name(id='lines__s', ctx=ast.Store())], value=seq0))
            new.append(ast.If(test=ast.UnaryOp(op=ast.Not(), operand=lines), body=[ast.Return(value=ast.List(elts=[], ctx=ast.Load()))], orelse=[]))
            first = ast.List(elts=[sub_x(v.elt.body, ast.Subscript(value=lines, slice=ast.Constant(value=0), ctx=ast.Load()))], ctx=ast.Load())
            tail = ast.ListComp(elt=copy.deepcopy(v.elt.orelse), generators=[ast.comprehension(
                target=ast.Name(id=xname, ctx=ast.Store()),
                iter=ast.Subscript(value=lines, slice=ast.Slice(lower=ast.Constant(value=1), upper=None, step=None), ctx=ast.Load()),
                ifs=[], is_async=0)])
            new.append(ast.Return(value=ast.BinOp(left=first, op=ast.Add(), right=tail)))
            for st in new[len(stmts) - 1:]:
                ast.copy_location(st, ret)
                ast.fix_missing_locations(st)
            return new
    elem = None          # (seq expr, stream, builder(x_expr, const) -> expr)
    if isinstance(v, ast.Call) and isinstance(v.func, ast.Name) and v.func.id == 'map' and len(v.args) == 3 and not v.keywords:
        stream = _constant_stream(v.args[2])
        f = v.args[0]
        if stream is not None and isinstance(f, (ast.Name, ast.Attribute)):
            elem = (v.args[1], stream, lambda x, c: ast.Call(func=copy.deepcopy(f), args=[x, copy.deepcopy(c)], keywords=[]))
    elif isinstance(v, (ast.ListComp, ast.GeneratorExp)) and len(v.generators) == 1 and not v.generators[0].ifs and \
            isinstance(v.generators[0].iter, ast.Call) and isinstance(v.generators[0].iter.func, ast.Name) and \
            v.generators[0].iter.func.id == 'zip' and len(v.generators[0].iter.args) == 2 and \
            isinstance(v.generators[0].target, ast.Tuple) and len(v.generators[0].target.elts) == 2 and \
            all(isinstance(t, ast.Name) for t in v.generators[0].target.elts):
        stream = _constant_stream(v.generators[0].iter.args[1])
        xn, bn = (t.id for t in v.generators[0].target.elts)
        body_e = v.elt
        if stream is not None:
            def build(x, c, _e=body_e, _xn=xn, _bn=bn):
                class Sub(ast.NodeTransformer):
                    def visit_Name(s_, node):
                        if node.id == _xn and isinstance(node.ctx, ast.Load):
                            return copy.deepcopy(x)
                        if node.id == _bn and isinstance(node.ctx, ast.Load):
                            return copy.deepcopy(c)
                        return node
                return Sub().visit(copy.deepcopy(_e))
            elem = (v.generators[0].iter.args[0], stream, build)
    if elem is None or (ret.value is v and not isinstance(v, ast.ListComp)):
        return stmts        # (a bare map / generator is an iterator, not a list)
    seq, stream, build = elem
    lines = ast.Name(id='lines__s', ctx=ast.Load())
    xvar = ast.Name(id='x__s', ctx=ast.Load())
    new: List[ast.stmt] = list(stmts[:-1])
    new.append(ast.Assign(targets=[ast.Name(id='lines__s', ctx=ast.Store())], value=seq, lineno=ret.lineno, col_offset=0))

    def comp(over: ast.expr, c) -> ast.expr:
        return ast.ListComp(elt=build(xvar, c), generators=[ast.comprehension(
            target=ast.Name(id='x__s', ctx=ast.Store()), iter=over, ifs=[], is_async=0)])
    if stream[0] == 'repeat':
        new.append(ast.Return(value=comp(lines, stream[1])))
    else:
        heads, rest = stream[1], stream[2]
        new.append(ast.If(test=ast.UnaryOp(op=ast.Not(), operand=lines), body=[ast.Return(value=ast.List(elts=[], ctx=ast.Load()))], orelse=[]))
        if len(heads) != 1:
            return stmts
        first = ast.List(elts=[build(ast.Subscript(value=lines, slice=ast.Constant(value=0), ctx=ast.Load()), heads[0])], ctx=ast.Load())
        tail = comp(ast.Subscript(value=lines, slice=ast.Slice(lower=ast.Constant(value=1), upper=None, step=None), ctx=ast.Load()), rest)
        new.append(ast.Return(value=ast.BinOp(left=first, op=ast.Add(), right=tail)))
    for st in new[len(stmts) - 1:]:
        for x in ast.walk(st):
            if isinstance(x, (ast.expr, ast.stmt)) and not hasattr(x, 'lineno'):
                x.lineno, x.col_offset = ret.lineno, ret.col_offset
                x.end_lineno, x.end_col_offset = getattr(ret, 'end_lineno', ret.lineno), getattr(ret, 'end_col_offset', 0)
        ast.fix_missing_locations(st)
    return new


def bound_in_nested(fn: FuncInfo, name: str) -> bool:
    return any(isinstance(x, ast.Name) and x.id == name and isinstance(x.ctx, ast.Store) for x in ast.walk(fn.node))
