"""Specialisation of a function for constant bindings, by constant folding over the syntax tree (no execution).

`residual(prog, fn, {'cls': 'component'})` answers "which statements of `fn` remain when the local `cls` is the string
'component'": comparisons with literals, lookups in constant tables of the package (`TABLE[k]`, `TABLE.get(k)`, through
helper functions), fields of the record objects such a table holds, tuple unpacking of its entries, `getattr(obj, <const>)`
and branches on all of these are folded; calls of `self.<method>(...)` statements are replaced by the (specialised) body
of the method.  What cannot be folded stays as it is.  An if / elif chain, a dispatch table of functions, a table of
handler names and a table of records all leave the same residual statements per key."""
from __future__ import annotations

import ast
import copy
from typing import Any, Dict, List, Optional, Tuple

from .model import Program, FuncInfo, ClassInfo, Module

UNKNOWN = object()


TRUTHY = 'an object that is true'


def _is_truthy_marker(v) -> bool:
    return v == TRUTHY or (isinstance(v, ast.Constant) and v.value == TRUTHY)


class _Folder:
    def __init__(self, prog: Program, fn: FuncInfo, env: Dict[str, ast.expr], depth: int = 0, stack: Tuple[str, ...] = (),
                 assume: Optional[Dict[str, ast.expr]] = None):
        self.prog, self.fn, self.mod = prog, fn, fn.module
        self.stack = stack + (fn.fq,)
        self.assume = {k: v for k, v in (assume or {}).items() if not _is_truthy_marker(v)}
        #                                     ^ source text of an expression on `self` -> the constant-like node it stands for
        self.truthy = {k for k, v in (assume or {}).items() if _is_truthy_marker(v)}    # ... -> "some object that is true"
        self.env = dict(env)            # local name -> constant-like AST node (Constant, table display, record ctor call ...)
        self.preset = set(env)
        self.depth = depth
        self.stored = {}
        for x in ast.walk(fn.node):
            if isinstance(x, ast.Name) and isinstance(x.ctx, ast.Store):
                self.stored[x.id] = self.stored.get(x.id, 0) + 1

    # -- expressions ---------------------------------------------------------------------------------------------
    def const_node(self, e: ast.expr) -> Optional[ast.expr]:
        """The constant-like node `e` stands for (a Constant, a display, a record constructor call of the package), or None."""
        if isinstance(e, ast.Constant):
            return e
        if isinstance(e, (ast.Dict, ast.Tuple, ast.List)) and not any(isinstance(x, ast.Name) and x.id in self.stored
                                                                       for x in ast.walk(e)):
            return e if all(isinstance(x, (ast.Dict, ast.Tuple, ast.List, ast.Constant, ast.Name, ast.Attribute, ast.Call,
                                           ast.keyword, ast.expr_context)) for x in ast.walk(e)) else None
        if isinstance(e, ast.Name):
            if e.id in self.env:
                return self.env[e.id]
            if e.id in self.stored or e.id in [a.arg for a in self.fn.params()]:
                return None
            sym = self.prog.resolve_name(self.mod, e.id)
            if isinstance(sym, tuple) and sym[0] == 'const':
                node = sym[1]
                if isinstance(node, ast.Call) and getattr(node.func, 'id', getattr(node.func, 'attr', '')) == 'MappingProxyType' \
                        and len(node.args) == 1:
                    node = node.args[0]
                return node if isinstance(node, (ast.Constant, ast.Dict, ast.Tuple, ast.List, ast.Call)) else None
            if isinstance(sym, (FuncInfo, ClassInfo)):
                return e
            return None
        if isinstance(e, ast.Attribute) or (isinstance(e, ast.Name) and e.id not in self.stored):
            sym = self.prog.resolve_expr_symbol(self.mod, e)
            if isinstance(sym, (FuncInfo, ClassInfo)) or (isinstance(sym, tuple) and sym[0] == 'enum_member'):
                return e        # a function / class / enum member of the package
        if isinstance(e, ast.Call) and isinstance(e.func, (ast.Name, ast.Attribute)):
            sym = self.prog.resolve_expr_symbol(self.mod, e.func)
            if isinstance(sym, ClassInfo) and (sym.is_dataclass or any(str(b).split('.')[-1] == 'NamedTuple' for b in sym.bases)) \
                    and not any(isinstance(x, ast.Name) and (x.id in self.stored) for x in ast.walk(e)):
                return e        # a record object of the package built from constants / references
        return None

    def _all_assumptions(self) -> Dict[str, Any]:
        d: Dict[str, Any] = dict(self.assume)
        d.update({k: TRUTHY for k in self.truthy})
        return d

    def truth(self, e: ast.expr) -> Optional[bool]:
        """truthiness of a folded expression, when it is decided"""
        if self.truthy and isinstance(e, (ast.Attribute, ast.Name)) and ast.unparse(e) in self.truthy:
            return True
        if isinstance(e, ast.Constant):
            return bool(e.value)
        if isinstance(e, (ast.Dict,)):
            return bool(e.keys)
        if isinstance(e, (ast.Tuple, ast.List, ast.Set)):
            return bool(e.elts)
        c = self.const_node(e)
        if c is not None and not isinstance(c, (ast.Constant, ast.Dict, ast.Tuple, ast.List)):
            return True         # an enum member, a function, a class, a record object
        return None

    def fold(self, e: ast.expr) -> ast.expr:
        """`e` with everything foldable folded (a new tree where something changed)."""
        if self.assume and isinstance(e, (ast.Attribute, ast.Name, ast.Call, ast.Subscript)):
            key = ast.unparse(e)
            if key in self.assume:
                return ast.copy_location(copy.deepcopy(self.assume[key]), e)
        if isinstance(e, ast.Name) and isinstance(e.ctx, ast.Load) and e.id in self.env and \
                isinstance(self.env[e.id], (ast.Constant, ast.Attribute, ast.Name)):
            return ast.copy_location(copy.deepcopy(self.env[e.id]), e)
        if isinstance(e, ast.UnaryOp) and isinstance(e.op, ast.Not):
            v = self.fold(e.operand)
            if self.truth(v) is not None:
                return ast.copy_location(ast.Constant(value=not self.truth(v)), e)
            return ast.copy_location(ast.UnaryOp(op=ast.Not(), operand=v), e)
        if isinstance(e, ast.BoolOp):
            vals = [self.fold(v) for v in e.values]
            out = []
            for v in vals:
                tv = self.truth(v)
                if tv is not None:
                    if isinstance(e.op, ast.And) and not tv:
                        return ast.copy_location(ast.Constant(value=False), e) if not out else \
                            ast.copy_location(ast.BoolOp(op=e.op, values=out + [v]), e)
                    if isinstance(e.op, ast.Or) and tv:
                        return ast.copy_location(ast.Constant(value=True), e) if not out else \
                            ast.copy_location(ast.BoolOp(op=e.op, values=out + [v]), e)
                    continue
                out.append(v)
            if not out:
                return ast.copy_location(ast.Constant(value=isinstance(e.op, ast.And)), e)
            return out[0] if len(out) == 1 else ast.copy_location(ast.BoolOp(op=e.op, values=out), e)
        if isinstance(e, ast.Compare) and len(e.ops) == 1:
            a, b = self.fold(e.left), self.fold(e.comparators[0])
            ca, cb = self.const_node(a), self.const_node(b)
            op = e.ops[0]
            if isinstance(ca, ast.Constant) and isinstance(cb, ast.Constant):
                table = {ast.Eq: ca.value == cb.value, ast.NotEq: ca.value != cb.value,
                         ast.Is: (ca.value is cb.value) if cb.value is None or ca.value is None else ca.value == cb.value,
                         ast.IsNot: (ca.value is not cb.value) if cb.value is None or ca.value is None else ca.value != cb.value}
                if type(op) in table:
                    return ast.copy_location(ast.Constant(value=bool(table[type(op)])), e)
            if ca is not None and cb is not None and isinstance(op, (ast.Eq, ast.NotEq, ast.Is, ast.IsNot)) and \
                    isinstance(ca, ast.Attribute) and isinstance(cb, ast.Attribute):
                sa, sb = self.prog.resolve_expr_symbol(self.mod, ca), self.prog.resolve_expr_symbol(self.mod, cb)
                if isinstance(sa, tuple) and isinstance(sb, tuple) and sa[0] == sb[0] == 'enum_member':
                    same = sa[1] is sb[1] and sa[2] == sb[2]
                    return ast.copy_location(ast.Constant(value=same if isinstance(op, (ast.Eq, ast.Is)) else not same), e)
            if isinstance(ca, ast.Constant) and ca.value is None and cb is not None and not isinstance(cb, ast.Constant) and \
                    isinstance(op, (ast.Is, ast.IsNot, ast.Eq, ast.NotEq)):
                return ast.copy_location(ast.Constant(value=isinstance(op, (ast.IsNot, ast.NotEq))), e)
            if isinstance(cb, ast.Constant) and cb.value is None and isinstance(op, (ast.Is, ast.IsNot, ast.Eq, ast.NotEq)) and \
                    ca is not None and not isinstance(ca, ast.Constant):
                return ast.copy_location(ast.Constant(value=isinstance(op, (ast.IsNot, ast.NotEq))), e)     # a table entry is not None
            if isinstance(ca, ast.Constant) and isinstance(op, (ast.In, ast.NotIn)) and isinstance(cb, (ast.Dict, ast.Tuple, ast.List)):
                keys = cb.keys if isinstance(cb, ast.Dict) else cb.elts
                if all(isinstance(k, ast.Constant) for k in keys):
                    r = ca.value in [k.value for k in keys]
                    return ast.copy_location(ast.Constant(value=r if isinstance(op, ast.In) else not r), e)
            return ast.copy_location(ast.Compare(left=a, ops=e.ops, comparators=[b]), e)
        if isinstance(e, ast.IfExp):
            t = self.fold(e.test)
            if self.truth(t) is not None:
                return self.fold(e.body if self.truth(t) else e.orelse)
            return ast.copy_location(ast.IfExp(test=t, body=self.fold(e.body), orelse=self.fold(e.orelse)), e)
        if isinstance(e, ast.Subscript):
            base = self.const_node(self.fold(e.value))
            k = self.fold(e.slice)
            if isinstance(base, ast.Dict) and isinstance(k, ast.Constant):
                for kk, vv in zip(base.keys, base.values):
                    if isinstance(kk, ast.Constant) and kk.value == k.value:
                        return vv
            if isinstance(base, (ast.Tuple, ast.List)) and isinstance(k, ast.Constant) and isinstance(k.value, int) and \
                    -len(base.elts) <= k.value < len(base.elts):
                return base.elts[k.value]
            return e
        if isinstance(e, ast.Attribute):
            base = self.const_node(self.fold(e.value))
            if isinstance(base, ast.Call):
                sym = self.prog.resolve_expr_symbol(self.mod, base.func) if isinstance(base.func, (ast.Name, ast.Attribute)) else None
                if isinstance(sym, ClassInfo):
                    fields = self._record_fields(sym)
                    args = {}
                    for i, a in enumerate(base.args):
                        if i < len(fields):
                            args[fields[i]] = a
                    for k in base.keywords:
                        if k.arg:
                            args[k.arg] = k.value
                    if e.attr in args:
                        return args[e.attr]
            return e
        if isinstance(e, ast.Call):
            return self.fold_call(e)
        return e

    def _record_fields(self, cls: ClassInfo) -> List[str]:
        return list(self.prog.class_fields(cls))

    def fold_call(self, e: ast.Call) -> ast.expr:
        f = e.func
        if isinstance(f, ast.Name) and f.id == 'isinstance' and len(e.args) == 2:
            a = self.fold(e.args[0])
            if isinstance(a, ast.Constant) and isinstance(e.args[1], ast.Name):
                py = {'str': str, 'int': int, 'bool': bool, 'dict': dict, 'list': list, 'float': float}.get(e.args[1].id)
                if py is not None:
                    return ast.copy_location(ast.Constant(value=isinstance(a.value, py)), e)
            return e
        if isinstance(f, ast.Name) and f.id == 'getattr' and len(e.args) == 2:
            nm = self.fold(e.args[1])
            if isinstance(nm, ast.Constant) and isinstance(nm.value, str):
                return ast.copy_location(ast.Attribute(value=e.args[0], attr=nm.value, ctx=ast.Load()), e)
            return e
        if isinstance(f, ast.Attribute) and f.attr == 'get' and 1 <= len(e.args) <= 2:
            base = self.const_node(self.fold(f.value))
            k = self.fold(e.args[0])
            if isinstance(base, ast.Dict) and isinstance(k, ast.Constant):
                for kk, vv in zip(base.keys, base.values):
                    if isinstance(kk, ast.Constant) and kk.value == k.value:
                        return vv
                return self.fold(e.args[1]) if len(e.args) == 2 else ast.copy_location(ast.Constant(value=None), e)
            return e
        # a callee that folds to a function of the package: call it by name
        if isinstance(f, (ast.Attribute, ast.Subscript, ast.Call, ast.Name)):
            g = self.fold(f) if not isinstance(f, ast.Name) else (self.env.get(f.id) if f.id in self.env else f)
            if g is not f and g is not None and isinstance(g, (ast.Name, ast.Attribute)):
                e = ast.copy_location(ast.Call(func=g, args=e.args, keywords=e.keywords), e)
                f = g
        # a method of the same object: specialise it under the same assumptions; a single remaining `return E` is inlined
        if isinstance(f, ast.Attribute) and isinstance(f.value, ast.Name) and f.value.id == 'self' and self.fn.cls is not None \
                and self.depth < 4:
            m = self.prog.lookup_method(self.fn.cls, f.attr)
            if m is not None and not m.is_property and m.fq not in self.stack and not e.keywords and \
                    not any(isinstance(a, ast.Starred) for a in e.args):
                params = [a.arg for a in m.params()]
                if not m.is_static and params[:1] == ['self']:
                    params = params[1:]
                if len(e.args) == len(params):
                    binding = dict(zip(params, [self.fold(a) for a in e.args]))
                    cenv = {k: c for k, v in binding.items() for c in [self.const_node(v)] if c is not None}
                    sub = _Folder(self.prog, m, cenv, self.depth + 1, self.stack, self._all_assumptions())
                    body, _l = sub.block(m.node.body)
                    body = [b for b in body if not isinstance(b, ast.Pass)]
                    if len(body) == 1 and isinstance(body[0], ast.Return) and body[0].value is not None:
                        uses = {}
                        for x in ast.walk(body[0].value):
                            if isinstance(x, ast.Name):
                                uses[x.id] = uses.get(x.id, 0) + 1
                        simple = all(isinstance(v, (ast.Name, ast.Attribute, ast.Constant)) or uses.get(k, 0) <= 1
                                     for k, v in binding.items())
                        bound_comp = {t.id for x in ast.walk(body[0].value) if isinstance(x, ast.comprehension)
                                      for t in ast.walk(x.target) if isinstance(t, ast.Name)}
                        if simple and not (bound_comp & {n_.id for v in binding.values() for n_ in ast.walk(v) if isinstance(n_, ast.Name)}):
                            class Sub(ast.NodeTransformer):
                                def visit_Name(s_, node):
                                    if node.id in binding and isinstance(node.ctx, ast.Load):
                                        return copy.deepcopy(binding[node.id])
                                    return node
                            return ast.copy_location(Sub().visit(copy.deepcopy(body[0].value)), e)
        # helper of the package with several returns: specialise it with the constant arguments
        if isinstance(f, (ast.Name, ast.Attribute)) and self.depth < 4:
            sym = self.prog.resolve_expr_symbol(self.mod, f)
            if isinstance(sym, FuncInfo) and sym is not self.fn and sym.module.name.startswith('dznpy'):
                bind = self.prog.bind_call(self.mod, e)
                cenv = {}
                for k, v in bind.items():
                    c = self.const_node(self.fold(v))
                    if c is not None:
                        cenv[k] = c
                if cenv:
                    r = residual(self.prog, sym, cenv, self.depth + 1)
                    if len(r) == 1 and isinstance(r[0], ast.Return) and r[0].value is not None:
                        sub = _Folder(self.prog, sym, cenv, self.depth + 1)
                        c = sub.const_node(r[0].value)
                        if c is not None:
                            return c
        return e

    # -- statements ----------------------------------------------------------------------------------------------
    def block(self, stmts: List[ast.stmt]) -> Tuple[List[ast.stmt], bool]:
        """(residual statements, whether the block certainly leaves the function)."""
        out: List[ast.stmt] = []
        for st in stmts:
            if isinstance(st, ast.Expr) and isinstance(st.value, ast.Constant):
                continue
            if isinstance(st, ast.If):
                t = self.fold(st.test)
                if self.truth(t) is not None:
                    body, leaves = self.block(st.body if self.truth(t) else st.orelse)
                    out.extend(body)
                    if leaves:
                        return out, True
                    continue
                b1, l1 = self.block(st.body)
                saved = dict(self.env)
                b2, l2 = self.block(st.orelse)
                self.env = {k: v for k, v in saved.items() if k in self.env and self.env[k] is v}
                out.append(ast.copy_location(ast.If(test=t, body=b1 or [ast.Pass()], orelse=b2), st))
                if l1 and l2:
                    return out, True
                continue
            if isinstance(st, (ast.For, ast.While)):
                # bindings made by the caller for names assigned in the loop body hold in every iteration
                body = []
                for b_ in st.body:
                    if isinstance(b_, (ast.Assign, ast.AnnAssign)):
                        tg = b_.targets[0] if isinstance(b_, ast.Assign) and len(b_.targets) == 1 else getattr(b_, 'target', None)
                        if isinstance(tg, ast.Name) and tg.id in self.preset and self.stored.get(tg.id, 0) == 1:
                            continue
                    body.append(b_)
                saved = dict(self.env)
                nb, _l = self.block(body)
                self.env = saved
                new = copy.copy(st)
                new.body = nb or [ast.Pass()]
                out.append(new)
                continue
            if isinstance(st, ast.Return):
                val = self.deep(st.value) if st.value is not None else None
                # `return helper(consts)` where the helper, specialised with those constants, only raises: the raise itself
                if isinstance(val, ast.Call) and isinstance(val.func, (ast.Name, ast.Attribute)) and self.depth < 4:
                    sym = self.prog.resolve_expr_symbol(self.mod, val.func)
                    if isinstance(sym, FuncInfo) and sym is not self.fn and sym.module.name.startswith('dznpy') and \
                            sym.fq not in self.stack:
                        bind = self.prog.bind_call(self.mod, val)
                        cenv = {k: c for k, v in bind.items() for c in [self.const_node(self.fold(v))] if c is not None}
                        if cenv and len(cenv) == len(bind):
                            r = residual(self.prog, sym, cenv, self.depth + 1)
                            r = [x for x in r if not isinstance(x, ast.Pass)]
                            if len(r) == 1 and isinstance(r[0], ast.Raise):
                                out.append(r[0])
                                return out, True
                out.append(ast.copy_location(ast.Return(value=val), st))
                return out, True
            if isinstance(st, ast.Raise):
                out.append(st)
                return out, True
            if isinstance(st, (ast.Assign, ast.AnnAssign)) and getattr(st, 'value', None) is not None:
                tgt = st.targets[0] if isinstance(st, ast.Assign) and len(st.targets) == 1 else getattr(st, 'target', None)
                val = self.deep(st.value)
                c = self.const_node(val)
                if isinstance(tgt, ast.Name) and self.stored.get(tgt.id, 0) == 1 and c is not None:
                    self.env[tgt.id] = c
                    continue
                if isinstance(tgt, (ast.Tuple, ast.List)) and isinstance(c, (ast.Tuple, ast.List)) and len(c.elts) == len(tgt.elts) and \
                        all(isinstance(t_, ast.Name) and self.stored.get(t_.id, 0) == 1 for t_ in tgt.elts):
                    for t_, v_ in zip(tgt.elts, c.elts):
                        self.env[t_.id] = v_
                    continue
                new = copy.copy(st)
                new.value = val
                out.append(new)
                continue
            if isinstance(st, ast.Expr) and isinstance(st.value, ast.Call):
                call = self.fold(st.value)
                inl = self._inline_self_call(call) if isinstance(call, ast.Call) else None
                if inl is not None:
                    out.extend(inl)
                    continue
                out.append(ast.copy_location(ast.Expr(value=self._fold_args(call)), st))
                continue
            out.append(self._fold_stmt_exprs(st))
        return out, False

    def deep(self, e: ast.expr) -> ast.expr:
        """fold `e` and, where the top level does not fold, everything inside it"""
        r = self.fold(e)
        if r is e:
            return self._fold_args(e)
        return r

    def _fold_args(self, e: ast.expr) -> ast.expr:
        """fold inside the arguments of a residual expression"""
        class T(ast.NodeTransformer):
            def generic_visit(s, node):
                node = super().generic_visit(node)
                if isinstance(node, ast.expr):
                    try:
                        return self.fold(node)
                    except Exception:       # noqa: BLE001 - folding is best effort
                        return node
                return node
        return T().visit(copy.deepcopy(e))

    def _fold_stmt_exprs(self, st: ast.stmt) -> ast.stmt:
        return self._fold_args_stmt(st)

    def _fold_args_stmt(self, st: ast.stmt) -> ast.stmt:
        class T(ast.NodeTransformer):
            def generic_visit(s, node):
                node = super().generic_visit(node)
                if isinstance(node, ast.expr):
                    try:
                        return self.fold(node)
                    except Exception:       # noqa: BLE001
                        return node
                return node
        return T().visit(copy.deepcopy(st))

    def _inline_self_call(self, call: ast.Call) -> Optional[List[ast.stmt]]:
        """`self.<m>(args)` as a statement: the residual body of m with its parameters replaced by the arguments."""
        f = call.func
        if not (isinstance(f, ast.Attribute) and isinstance(f.value, ast.Name) and f.value.id == 'self' and self.fn.cls is not None
                and self.depth < 4):
            return None
        m = self.prog.lookup_method(self.fn.cls, f.attr)
        if m is None or m is self.fn or m.is_property or m.fq in self.stack:
            return None
        if any(isinstance(x, ast.Return) and x.value is not None for x in ast.walk(m.node)):
            return None
        params = [a.arg for a in m.params()]
        if not m.is_static and params[:1] == ['self']:
            params = params[1:]
        if len(call.args) > len(params) or call.keywords:
            return None
        binding = dict(zip(params, call.args))
        if len(binding) != len(params):
            return None
        cenv = {k: c for k, v in binding.items() for c in [self.const_node(self.fold(v))] if c is not None}
        body, _leaves = _Folder(self.prog, m, cenv, self.depth + 1, self.stack, self._all_assumptions()).block(m.node.body)

        class Sub(ast.NodeTransformer):
            def visit_Name(s, node):
                if node.id in binding and isinstance(node.ctx, ast.Load):
                    return copy.deepcopy(binding[node.id])
                return node
        out = [Sub().visit(copy.deepcopy(b)) for b in body if not isinstance(b, ast.Return)]
        return out


def residual(prog: Program, fn: FuncInfo, bindings: Dict[str, Any], depth: int = 0,
             assume: Optional[Dict[str, Any]] = None) -> List[ast.stmt]:
    """The statements of `fn` that remain when the given locals / parameters are bound to constants (python values or
    constant-like AST nodes) and the expressions in `assume` (source text, e.g. 'self.bullet_list.mode') stand for the given
    constants / enum members."""
    env = {k: (v if isinstance(v, ast.AST) else ast.Constant(value=v)) for k, v in bindings.items()}
    asm = {k: (v if isinstance(v, ast.AST) else ast.Constant(value=v)) for k, v in (assume or {}).items()}
    folder = _Folder(prog, fn, env, depth, (), asm)
    # locals bound by the caller are constants even though the function assigns them (e.g. `cls = get_class_value(element)`)
    body = []
    for st in fn.node.body:
        if isinstance(st, (ast.Assign, ast.AnnAssign)):
            tgt = st.targets[0] if isinstance(st, ast.Assign) and len(st.targets) == 1 else getattr(st, 'target', None)
            if isinstance(tgt, ast.Name) and tgt.id in env and folder.stored.get(tgt.id, 0) == 1:
                continue
        body.append(st)
    out, _leaves = folder.block(body)
    return out


def bound_in_nested(fn: FuncInfo, name: str) -> bool:
    return any(isinstance(x, ast.Name) and x.id == name and isinstance(x.ctx, ast.Store) for x in ast.walk(fn.node))
