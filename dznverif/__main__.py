import sys
from .cli import main
sys.exit(main())
