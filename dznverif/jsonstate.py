"""E3e - typestate of decoded JSON values in the parser module.

A value read from the decoded JSON document is `U` (unchecked) until an `isinstance` test that
dominates the use refines it to D (dict), L (list), S (str) or I (int).  Children of a checked
container are unchecked again.  Allowed on `U`: equality comparison, isinstance, truthiness,
formatting, storing, returning, handing to package code (which is analysed with its parameters
unchecked).  Everything else (subscript, membership with the value as container, iteration,
attribute / method access, call, ordering, len, arithmetic, builtins that inspect the value)
needs a checked state.
"""
from __future__ import annotations

import ast
from typing import Dict, List, Optional, Set, Tuple

from .model import Program, CallGraph, FuncInfo, ClassInfo, Module, iter_own_nodes, strip_opt
from .flow import Flow, same_expr, always_raises, atomic_facts
from .absval import Abs

U, D, L, S, I, B = 'U', 'D', 'L', 'S', 'I', 'B'
TYPE_STATE = {'dict': D, 'list': L, 'str': S, 'int': I, 'bool': B, 'float': I}
SAFE_BUILTINS = {'isinstance', 'str', 'repr', 'print', 'format', 'type', 'id', 'bool'}


def join(a: Optional[str], b: Optional[str]) -> Optional[str]:
    if a is None:
        return b
    if b is None:
        return a
    return a if a == b else U


def is_parametric(st: Optional[str]) -> bool:
    """`?p`: the value passed an `isinstance(value, p)` test where p is a parameter of the function (a generic typed getter);
    the call site decides what that is.  Inside the function it counts as unchecked."""
    return isinstance(st, str) and st.startswith('?')


class JsonTypestate:
    def __init__(self, prog: Program, cg: CallGraph, flow: Flow, abs_: Abs, module: str = 'json_ast'):
        self.prog, self.cg, self.flow, self.abs = prog, cg, flow, abs_
        self.mod: Module = prog.module(module)
        self.fns: List[FuncInfo] = [f for f in prog.all_functions() if f.module is self.mod]
        self.ret_state: Dict[str, Optional[str]] = {}
        self.param_state: Dict[Tuple[str, str], Optional[str]] = {}
        self.field_state: Dict[Tuple[str, str], str] = {}     # (class fq, field) -> state of the stored value
        self.uses: List[Tuple[FuncInfo, ast.AST, str, Optional[str], bool, str]] = []
        self._changed = True

    # ------------------------------------------------------------------------------------------------
    def solve(self, max_iter: int = 10) -> int:
        self._init_params()
        self._field_invariants()
        it = 0
        while self._changed and it < max_iter:
            self._changed = False
            it += 1
            for fn in self.fns:
                self._summarise(fn)
        called = {t.fq for g in self.prog.all_functions() for c in iter_own_nodes(g.node) if isinstance(c, ast.Call)
                  for t in self.cg.env(g).resolve_call(c) if isinstance(t, FuncInfo)}
        inlined = {callee for _caller, callee in self.prog.inlined}
        self.judged_at_call_sites: List[str] = []
        for fn in self.fns:
            if fn.fq in inlined and fn.fq not in called and not (fn.cls is None and fn.name.startswith('parse_')):
                # a generic helper whose every call was expanded in place (normal forms N7/N11/N13/N16): its body is judged
                # in each caller with the actual item parser / type / table; the definition itself is not an entry point
                self.judged_at_call_sites.append(fn.fq)
                continue
            self._check_uses(fn)
        return it

    def _init_params(self):
        """Parameters of parser functions are JSON sources unless they are annotated with a non-JSON class."""
        for fn in self.fns:
            for a in fn.params():
                if a.arg in ('self', 'cls'):
                    continue
                t = strip_opt(self.prog.ann_to_type(fn.module, a.annotation, fn.cls))
                if a.annotation is not None and ast.unparse(a.annotation).split('[')[0].split('.')[-1] in ('Callable', 'Type', 'type'):
                    self.param_state[(fn.fq, a.arg)] = None        # declared to be a function / a class: no document value is one
                    continue
                if t[0] in ('list', 'set') and strip_opt(t[1])[0] == 'cls' and strip_opt(t[1])[1] in self.prog.classes:
                    self.param_state[(fn.fq, a.arg)] = None        # a collection of objects of a package class: no document holds those
                    continue
                if t[0] in ('dict', 'list', 'any') and fn.name.startswith('_') and not fn.name.startswith('__') and \
                        self.cg.callers(fn):
                    # a private helper is only ever called from this package: the state of its parameters is what the call
                    # sites pass (joined over all of them by _summarise)
                    self.param_state[(fn.fq, a.arg)] = None
                elif t[0] in ('dict', 'list', 'any'):
                    self.param_state[(fn.fq, a.arg)] = U          # annotation is a wish, not a check
                elif t[0] in ('str', 'int', 'bool'):
                    # trusted only if every internal call site passes a value in that state (computed in _summarise);
                    # public entry points: well-typed API call assumed
                    self.param_state[(fn.fq, a.arg)] = None
                else:
                    self.param_state[(fn.fq, a.arg)] = None
        self._demote_configuration_params()

    def _demote_configuration_params(self):
        """A parameter that, at every call site in the package (at least one), receives something that cannot come out of a
        document - a module-level constant, a function / class / builtin type name, a literal, or the caller's own parameter of
        that kind - is configuration of a generic helper (expected type, item parser, keyword table), not a JSON value."""
        sites: Dict[str, List[Tuple[FuncInfo, ast.Call]]] = {}
        for g in self.prog.all_functions():
            for c in iter_own_nodes(g.node):
                if isinstance(c, ast.Call):
                    for t in self.cg.env(g).resolve_call(c):
                        if isinstance(t, FuncInfo) and t.module is self.mod:
                            sites.setdefault(t.fq, []).append((g, c, t))
        import builtins
        config: Set[Tuple[str, str]] = set()

        def is_config(g: FuncInfo, a: ast.AST) -> bool:
            if isinstance(a, ast.Constant):
                return True
            if isinstance(a, ast.Lambda):
                return True
            if isinstance(a, (ast.Name, ast.Attribute)):
                if isinstance(a, ast.Name) and (g.fq, a.id) in config and a.id not in self.cg.env(g)._assign_sites:
                    return True
                if isinstance(a, ast.Name) and (a.id in self.cg.env(g)._assign_sites or a.id in [x.arg for x in g.params()]):
                    return False
                sym = self.prog.resolve_expr_symbol(g.module, a)
                if isinstance(sym, (FuncInfo, ClassInfo)):
                    return True
                if isinstance(sym, tuple) and sym[0] in ('const', 'enum_member'):
                    return True
                if isinstance(a, ast.Name) and sym is None and hasattr(builtins, a.id):
                    return True
            return False

        changed = True
        while changed:
            changed = False
            for fn in self.fns:
                entry = fn.name.startswith('parse_') and fn.cls is None
                # the parse functions are entry points of their own: their elements are documents - except a parameter that is
                # declared to be a class / a function (`kind: type`, `item_parser: Callable[..]`): no document value is one
                ss = sites.get(fn.fq, [])
                if not ss:
                    continue
                for a in fn.params():
                    key = (fn.fq, a.arg)
                    if a.arg in ('self', 'cls') or key in config:
                        continue
                    if entry and not (a.annotation is not None and ast.unparse(a.annotation).split('[')[0].split('.')[-1] in
                                      ('type', 'Type', 'Callable', 'EnumMeta', 'EnumType')):
                        continue
                    args = []
                    for g, c, t in ss:
                        b = self.prog.bind_call(g.module, c, t)
                        if a.arg in b:
                            args.append((g, b[a.arg]))
                        elif a.arg not in [x.arg for x in fn.params() if x.arg in b] and self._has_default(fn, a.arg):
                            continue
                        else:
                            args = None
                            break
                    if args and all(is_config(g, x) for g, x in args):
                        config.add(key)
                        self.param_state[key] = None
                        changed = True
        self.config_params = config

    @staticmethod
    def _has_default(fn: FuncInfo, name: str) -> bool:
        a = fn.node.args
        pos = a.posonlyargs + a.args
        n_def = len(a.defaults)
        for i, x in enumerate(pos):
            if x.arg == name:
                return i >= len(pos) - n_def
        for x, d in zip(a.kwonlyargs, a.kw_defaults):
            if x.arg == name:
                return d is not None
        return False

    def _field_invariants(self):
        """self.X = P in __init__ together with a top-level `if not isinstance(P|self.X, T): raise` makes
        self.X of state T in every other method."""
        for cls in self.mod.classes.values():
            init = cls.methods.get('__init__')
            if init is None:
                continue
            assigns: Dict[str, ast.expr] = {}
            for s in init.node.body:
                if isinstance(s, ast.Assign):
                    for t in s.targets:
                        if isinstance(t, ast.Attribute) and isinstance(t.value, ast.Name) and t.value.id == 'self':
                            assigns[t.attr] = s.value
            for attr, val in assigns.items():
                st = self.state(init, val, val)
                if st is None:
                    continue
                refined = st
                for s in init.node.body:
                    if isinstance(s, ast.If) and always_raises(s.body) and not s.orelse:
                        for cond, pol in atomic_facts([(s.test, False)]):
                            if pol and isinstance(cond, ast.Call) and getattr(cond.func, 'id', '') == 'isinstance' \
                                    and len(cond.args) == 2 and isinstance(cond.args[1], ast.Name):
                                subj = cond.args[0]
                                if same_expr(subj, val) or (isinstance(subj, ast.Attribute) and subj.attr == attr):
                                    refined = TYPE_STATE.get(cond.args[1].id, U)
                self.field_state[(cls.fq, attr)] = refined

    # -- state of an expression --------------------------------------------------------------------------------
    def state(self, fn: FuncInfo, e: ast.AST, node: Optional[ast.AST], depth: int = 0) -> Optional[str]:
        """None: not a JSON value.  Otherwise U/D/L/S/I after refinement by the path facts at `node`."""
        base = self._raw_state(fn, e, depth)
        if base is None:
            return None
        if node is not None and self.prog.parent(node) is not None:
            for cond, pol in self.abs.facts_at(node):
                if isinstance(cond, ast.Call) and getattr(cond.func, 'id', '') == 'isinstance' and len(cond.args) == 2 \
                        and same_expr(cond.args[0], e) and pol:
                    tn = cond.args[1]
                    if isinstance(tn, ast.Name) and tn.id in TYPE_STATE:
                        base = TYPE_STATE[tn.id]
                    elif isinstance(tn, ast.Name) and (fn.fq, tn.id) in getattr(self, 'config_params', ()) and \
                            tn.id not in self.cg.env(fn)._assign_sites:
                        base = '?' + tn.id
        return base

    def _raw_state(self, fn: FuncInfo, e: ast.AST, depth: int) -> Optional[str]:
        if depth > 8:
            return U
        prog, env = self.prog, self.cg.env(fn)
        if isinstance(e, ast.Name):
            f: Optional[FuncInfo] = fn
            while f is not None:
                if (f.fq, e.id) in self.param_state and e.id not in self.cg.env(f)._assign_sites:
                    return self.param_state[(f.fq, e.id)]
                f = f.parent
            sites = env._assign_sites.get(e.id, [])
            st: Optional[str] = None
            tainted = False
            for s in sites:
                if s[0] == 'expr':
                    x = self.state(fn, s[1], s[1], depth + 1)
                elif s[0] == 'elem':
                    cont = self.state(fn, s[1], s[1], depth + 1)
                    x = U if cont is not None else None     # children of a JSON container are unchecked
                else:
                    x = None
                if x is not None:
                    tainted = True
                    st = join(st, x)
            return st if tainted else None
        if isinstance(e, ast.Attribute):
            bt = strip_opt(env.type_of(e.value))
            if bt[0] == 'cls':
                if (bt[1], e.attr) in self.field_state:
                    return self.field_state[(bt[1], e.attr)]
                c = prog.classes.get(bt[1])
                m = prog.lookup_method(c, e.attr) if c else None
                if m is not None and m.is_property and m.fq in self.ret_state:
                    return self.ret_state[m.fq]
            return None
        if isinstance(e, ast.Subscript):
            cont = self.state(fn, e.value, e.value, depth + 1)
            if cont is None:
                return None
            if isinstance(e.slice, ast.Slice):
                return cont
            return U
        if isinstance(e, ast.Call):
            f = e.func
            sym = prog.resolve_expr_symbol(fn.module, f)
            if isinstance(sym, tuple) and sym[0] == 'ext' and sym[1].startswith('orjson.'):
                return U
            for c in env.resolve_call(e):
                if isinstance(c, FuncInfo) and c.fq in self.ret_state and c.name not in ('__init__', '__post_init__'):
                    rs = self.ret_state[c.fq]
                    if is_parametric(rs):
                        a = prog.bind_call(fn.module, e, c).get(rs[1:])
                        if isinstance(a, ast.Name) and a.id in TYPE_STATE and prog.resolve_name(fn.module, a.id) is None:
                            return TYPE_STATE[a.id]
                        if isinstance(a, ast.Name) and (fn.fq, a.id) in getattr(self, 'config_params', ()) and \
                                a.id not in env._assign_sites:
                            return '?' + a.id
                        return U
                    return rs
            if isinstance(f, ast.Attribute) and f.attr in ('get', 'pop', 'setdefault', 'copy') and \
                    self.state(fn, f.value, f.value, depth + 1) is not None:
                return U       # an element (or the default) taken out of a decoded JSON container: a JSON value again
            if isinstance(f, ast.Name) and f.id in ('iter', 'list', 'tuple', 'reversed') and len(e.args) == 1 and \
                    prog.resolve_name(fn.module, f.id) is None:
                st0 = self.state(fn, e.args[0], e.args[0], depth + 1)
                if st0 in (L, D):
                    return L       # the same (unchecked) elements, one by one
                return U if st0 is not None else None
            return None
        if isinstance(e, ast.IfExp):
            return join(self.state(fn, e.body, e.body, depth + 1), self.state(fn, e.orelse, e.orelse, depth + 1))
        if isinstance(e, ast.BoolOp):
            st = None
            for v in e.values:
                st = join(st, self.state(fn, v, v, depth + 1))
            return st
        return None

    # -- summaries ------------------------------------------------------------------------------------------------
    def _set(self, table: dict, key, val: Optional[str]):
        if key not in table:
            table[key] = val
            self._changed = True
        else:
            new = join(table[key], val) if (table[key] is not None or val is not None) else None
            if new != table[key]:
                table[key] = new
                self._changed = True

    def _summarise(self, fn: FuncInfo):
        env = self.cg.env(fn)
        # return state
        rs: Optional[str] = None
        any_ret = False
        for n in iter_own_nodes(fn.node):
            if isinstance(n, ast.Return) and n.value is not None and not (
                    isinstance(n.value, ast.Constant) and n.value.value is None):
                st = self.state(fn, n.value, n)
                if st is not None:
                    any_ret = True
                    rs = join(rs, st)
        if any_ret and fn.name not in ('__init__',):
            if self.ret_state.get(fn.fq) != rs:
                self.ret_state[fn.fq] = rs
                self._changed = True
        # argument states flowing into parameters / dataclass fields
        for n in iter_own_nodes(fn.node):
            if not isinstance(n, ast.Call):
                continue
            for c in env.resolve_call(n):
                if isinstance(c, tuple) and c[0] == 'ctor':
                    cls: ClassInfo = c[1]
                    if (cls.is_dataclass or any(str(b).split('.')[-1] == 'NamedTuple' for b in cls.bases)) and \
                            self.prog.lookup_method(cls, '__init__') is None:
                        names = list(self.prog.class_fields(cls).keys())
                        pairs = [(names[i], a) for i, a in enumerate(n.args) if i < len(names)] + \
                                [(k.arg, k.value) for k in n.keywords if k.arg]
                        for fld, a in pairs:
                            st = self.state(fn, a, n)
                            if st is not None:
                                key = (cls.fq, fld)
                                new = join(self.field_state.get(key), st)
                                if self.field_state.get(key) != new:
                                    self.field_state[key] = new
                                    self._changed = True
                if isinstance(c, FuncInfo) and c.module is self.mod:
                    params = c.params()
                    offset = 1 if (c.cls is not None and not c.is_static and c.parent is None and params
                                   and params[0].arg in ('self', 'cls')) else 0
                    pairs = [(params[i + offset].arg, a) for i, a in enumerate(n.args) if i + offset < len(params)] + \
                            [(k.arg, k.value) for k in n.keywords if k.arg]
                    for pn, a in pairs:
                        st = self.state(fn, a, n)
                        if st is not None and self.param_state.get((c.fq, pn)) is None:
                            # a JSON value reaches a parameter that was assumed clean
                            self.param_state[(c.fq, pn)] = st
                            self._changed = True
                        elif st is not None and self.param_state.get((c.fq, pn)) not in (None, U) and \
                                self.param_state[(c.fq, pn)] != st:
                            self.param_state[(c.fq, pn)] = U
                            self._changed = True

    # -- uses --------------------------------------------------------------------------------------------------------
    def _check_uses(self, fn: FuncInfo):
        prog = self.prog

        def rec(node, op, st, ok, why):
            self.uses.append((fn, node, op, st, ok, why))

        for n in iter_own_nodes(fn.node):
            if not isinstance(n, ast.expr) or isinstance(getattr(n, 'ctx', None), (ast.Store, ast.Del)):
                continue
            st = self.state(fn, n, n)
            if st is None:
                continue
            p = prog.parent(n)
            txt = ast.unparse(n)[:50]
            if isinstance(p, ast.Subscript) and p.value is n:
                if isinstance(p.ctx, ast.Load):
                    ok = st in (D, L) or (st == S and False)
                    rec(p, 'subscript', st, ok, f'`{txt}` is subscripted' + ('' if ok else
                        ' before its type was checked (TypeError for a scalar / string indices)'))
            elif isinstance(p, ast.Compare):
                ops = p.ops
                operands = [p.left] + list(p.comparators)
                idx = next(i for i, o in enumerate(operands) if o is n)
                bad = False
                for k, op in enumerate(ops):
                    involved = idx in (k, k + 1)
                    if not involved:
                        continue
                    if isinstance(op, (ast.In, ast.NotIn)):
                        if idx == k + 1:      # container position
                            if st not in (D, L):
                                bad = True
                                rec(p, 'membership', st, False,
                                    f'membership test in `{txt}` before it is known to be a container')
                            else:
                                rec(p, 'membership', st, True, f'membership test in checked {st} `{txt}`')
                        else:
                            if st in (U, D, L) or is_parametric(st):
                                bad = True
                                rec(p, 'hash', st, False, f'`{txt}` is used as a key (unhashable for list/dict values)')
                    elif isinstance(op, (ast.Lt, ast.LtE, ast.Gt, ast.GtE)):
                        if st not in (I,):
                            bad = True
                            rec(p, 'ordering', st, False, f'ordering comparison on `{txt}` of unchecked type')
                if not bad and not any(isinstance(o, (ast.In, ast.NotIn, ast.Lt, ast.LtE, ast.Gt, ast.GtE)) for o in ops):
                    rec(p, 'equality', st, True, f'equality comparison of `{txt}`')
            elif isinstance(p, (ast.For, ast.comprehension)) and p.iter is n:
                ok = st in (L, D)
                rec(n, 'iterate', st, ok, f'iteration over `{txt}`' + ('' if ok else ' before it is known to be a list'))
            elif isinstance(p, ast.Attribute) and p.value is n:
                ok = st in (S, D, L)
                rec(p, 'attribute', st, ok, f'attribute `.{p.attr}` of `{txt}`' + ('' if ok else ' of unchecked type'))
            elif isinstance(p, ast.Call) and p.func is n:
                rec(p, 'call', st, False, f'`{txt}` is called')
            elif isinstance(p, ast.Call):
                f = p.func
                fname = f.id if isinstance(f, ast.Name) else None
                callees = self.cg.env(fn).resolve_call(p)
                if fname in SAFE_BUILTINS and prog.resolve_name(fn.module, fname) is None:
                    rec(p, 'inspect', st, True, f'{fname}() of `{txt}`')
                elif any(isinstance(c, FuncInfo) and c.module is self.mod for c in callees):
                    rec(p, 'pass', st, True, f'`{txt}` handed to parser code (analysed with the parameter unchecked)')
                elif any(isinstance(c, tuple) and c[0] == 'ctor' for c in callees):
                    rec(p, 'store', st, True, f'`{txt}` stored in a dataclass')
                elif any(isinstance(c, FuncInfo) for c in callees):
                    # package code outside the parser: must validate itself (namespaceids_t does)
                    cal = next(c for c in callees if isinstance(c, FuncInfo))
                    ok = self._callee_checks(cal, p, n)
                    rec(p, 'pass-out', st, ok, f'`{txt}` handed to {cal.qualname}' + (
                        ' which validates its argument' if ok else ' which uses it without validation'))
                elif fname in ('len', 'int', 'float', 'sorted', 'list', 'set', 'tuple', 'dict', 'sum', 'min', 'max',
                               'any', 'all', 'enumerate', 'zip', 'iter', 'next', 'reversed', 'abs', 'hash'):
                    # walking a checked container cannot fail; ordering / hashing / adding its (unchecked) elements can
                    ok = (fname == 'len' and st in (D, L, S)) or \
                        (fname in ('list', 'tuple', 'any', 'all', 'enumerate', 'iter', 'reversed') and st in (L, D))
                    rec(p, 'builtin', st, ok, f'{fname}() applied to `{txt}`' + ('' if ok else ' of unchecked type'))
                elif isinstance(f, ast.Attribute) and f.value is not n:
                    # argument of a method of a non-JSON object (e.g. list.append(value)): storing
                    rec(p, 'store', st, True, f'`{txt}` passed to `{ast.unparse(f)[:30]}` (stored)')
                else:
                    rec(p, 'external', st, st != U and not is_parametric(st), f'`{txt}` handed to unresolved code `{ast.unparse(f)[:30]}`')
            elif isinstance(p, (ast.BinOp, ast.AugAssign)):
                rec(p, 'arithmetic', st, st in (I, S), f'arithmetic / concatenation on `{txt}`')
            elif isinstance(p, ast.UnaryOp) and not isinstance(p.op, ast.Not):
                rec(p, 'arithmetic', st, st == I, f'unary operator on `{txt}`')
            elif isinstance(p, ast.Starred):
                rec(p, 'unpack', st, st == L, f'`{txt}` star-unpacked')
            elif isinstance(p, ast.Assign) and any(isinstance(t, (ast.Tuple, ast.List)) for t in p.targets) and p.value is n:
                rec(p, 'unpack', st, False, f'`{txt}` unpacked by position')
            elif isinstance(p, ast.Subscript) and p.slice is n:
                rec(p, 'index', st, st in (S, I), f'`{txt}` used as key / index')
            else:
                # truthiness, formatting, storing, returning, boolean operands ...
                rec(n, 'benign', st, True, f'`{txt}` ({type(p).__name__})')

    def _callee_checks(self, callee: FuncInfo, call: ast.Call, arg: ast.AST, depth: int = 0) -> bool:
        """The callee (outside the parser module) type-tests the parameter before any other use: all uses of the
        parameter are isinstance tests, calls of package predicates, equality, truthiness, or are dominated by a
        positive isinstance / predicate fact."""
        params = [a.arg for a in callee.params()]
        idx = next((i for i, a in enumerate(call.args) if a is arg), None)
        pname = params[idx] if idx is not None and idx < len(params) else next(
            (k.arg for k in call.keywords if k.value is arg), None)
        if pname is None:
            return False
        for n in iter_own_nodes(callee.node):
            if isinstance(n, ast.Name) and n.id == pname and isinstance(n.ctx, ast.Load):
                p = self.prog.parent(n)
                if isinstance(p, ast.Call) and p.func is not n:
                    fname = getattr(p.func, 'id', getattr(p.func, 'attr', ''))
                    if fname in ('isinstance', 'is_strlist_instance', 'is_strset_instance', 'str', 'repr'):
                        continue
                    # passing on to another package function that validates
                    inner = [c for c in self.cg.env(callee).resolve_call(p) if isinstance(c, FuncInfo)]
                    if inner and depth < 4 and all(self._callee_checks(c, p, n, depth + 1) for c in inner):
                        continue
                if isinstance(p, (ast.FormattedValue, ast.Return)):
                    continue
                if isinstance(p, ast.UnaryOp) and isinstance(p.op, ast.Not):
                    continue
                if isinstance(p, ast.If) and p.test is n:
                    continue
                facts = self.abs.facts_at(n)
                typed = False
                for cond, pol in facts:
                    if pol and isinstance(cond, ast.Call):
                        fname = getattr(cond.func, 'id', '')
                        if fname in ('isinstance', 'is_strlist_instance') and cond.args and \
                                isinstance(cond.args[0], ast.Name) and cond.args[0].id == pname:
                            typed = True
                    if not pol and isinstance(cond, ast.UnaryOp):
                        pass
                if typed:
                    continue
                # `if not isinstance(value, str): raise` earlier -> fact (isinstance, True) is produced by flow
                return False
        return True
