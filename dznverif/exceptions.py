"""E3a - exception escape analysis.

For each function the set of exception classes that may leave it:
  * explicit `raise` (minus enclosing handlers; bare re-raise and `raise .. from` followed),
  * callee sets along the call graph (fixpoint),
  * *implicit raisers* from a closed table of operations; each site is an **obligation** that must be
    discharged by a recognised guard on every path (path facts of E2 evaluated by absval.Abs), by a class
    invariant established in `__post_init__` of a frozen dataclass, or by a reasoned table entry whose
    justification is re-checked on every run.
Explicit raises of built-in exception types are obligations too.  When the path facts of such a raise
mention only parameters, it becomes a *conditional summary* that is evaluated at every call site with
the abstract values of the arguments (argument validators such as assert_t).
"""
from __future__ import annotations

import ast
import builtins
from dataclasses import dataclass, field
from typing import Any, Callable, Dict, List, Optional, Set, Tuple

from .model import (Program, CallGraph, FuncInfo, ClassInfo, TypeEnv, Module, iter_own_nodes, strip_opt, ANY, NONE,
                    BUILTIN_METHOD_NAMES)
from .flow import Flow, same_expr, always_exits
from .absval import Abs, YES, NO, MAYBE
from .report import node_text

BUILTIN_EXC_PARENT = {
    'BaseException': None, 'Exception': 'BaseException', 'LookupError': 'Exception', 'KeyError': 'LookupError',
    'IndexError': 'LookupError', 'ValueError': 'Exception', 'TypeError': 'Exception',
    'AttributeError': 'Exception', 'StopIteration': 'Exception', 'ArithmeticError': 'Exception',
    'ZeroDivisionError': 'ArithmeticError', 'RuntimeError': 'Exception', 'RecursionError': 'RuntimeError',
    'NotImplementedError': 'RuntimeError', 'NameError': 'Exception', 'UnboundLocalError': 'NameError',
    'OSError': 'Exception', 'FileNotFoundError': 'OSError', 'IOError': 'Exception', 'AssertionError': 'Exception',
    'UnicodeError': 'ValueError', 'UnicodeEncodeError': 'UnicodeError', 'UnicodeDecodeError': 'UnicodeError',
    'ImportError': 'Exception', 'MemoryError': 'Exception', 'OverflowError': 'ArithmeticError',
    'KeyboardInterrupt': 'BaseException', 'SystemExit': 'BaseException', 'GeneratorExit': 'BaseException',
    'StopAsyncIteration': 'Exception', 'EOFError': 'Exception', 'BufferError': 'Exception',
    'PermissionError': 'OSError', 'TimeoutError': 'OSError', 'orjson.JSONDecodeError': 'ValueError',
}
BUILTIN_NAMES = set(dir(builtins))


def _bound_call(cnode: ast.Call) -> bool:
    """The callee expression binds its receiver: `obj.m(..)` or `getattr(obj, name)(..)`; a plain name / table entry does not."""
    f = cnode.func
    return isinstance(f, ast.Attribute) or (isinstance(f, ast.Call) and isinstance(f.func, ast.Name) and f.func.id == 'getattr'
                                            and len(f.args) >= 2)


@dataclass
class Ob:
    fn: FuncInfo
    node: ast.AST
    kind: str
    exc: str
    text: str
    discharged: Optional[str] = None
    explicit: bool = False
    facts: List[Tuple[ast.expr, bool]] = field(default_factory=list)
    guard_opaque: bool = False      # an explicit raise under a condition the atom language cannot express

    @property
    def ident(self) -> int:
        return id(self.node) ^ hash(self.kind)


def key_id_mod(prog, mod, k: ast.expr):
    """identity of a constant dict key written in module `mod`"""
    if isinstance(k, ast.Constant):
        return ('const', repr(k.value))
    sym = prog.resolve_expr_symbol(mod, k) if isinstance(k, (ast.Name, ast.Attribute)) else None
    if isinstance(sym, tuple) and sym[0] == 'enum_member':
        return ('enum', sym[1].fq, sym[2])
    if isinstance(sym, tuple) and sym[0] == 'const' and isinstance(sym[1], ast.Constant):
        return ('const', repr(sym[1].value))
    return None


def _is_relational(cond: ast.expr) -> bool:
    """The condition relates several computed values to each other (`len(a) != len(b)`, `[x for x in a if x not in b]`,
    `len({f(x) for x in xs}) > 1`): no choice of ONE input field decides it, and the atom language has no place for it.
    Simple conditions - truthiness / None-ness / isinstance of a value, comparison of a value with a constant - are not."""
    def const_like(e) -> bool:
        if isinstance(e, ast.Constant):
            return True
        if isinstance(e, (ast.List, ast.Tuple, ast.Set)):
            return all(const_like(x) for x in e.elts)
        if isinstance(e, ast.Attribute):
            return e.attr.isupper()
        if isinstance(e, ast.Name):
            return e.id.isupper() or e.id in ('None', 'True', 'False')
        if isinstance(e, ast.UnaryOp):
            return const_like(e.operand)
        return False

    def computed(e) -> bool:
        return any(isinstance(x, (ast.ListComp, ast.SetComp, ast.DictComp, ast.GeneratorExp)) for x in ast.walk(e))

    if isinstance(cond, ast.UnaryOp) and isinstance(cond.op, ast.Not):
        return _is_relational(cond.operand)
    if isinstance(cond, ast.BoolOp):
        return any(_is_relational(v) for v in cond.values)
    if isinstance(cond, ast.Compare):
        sides = [cond.left] + list(cond.comparators)
        if any(computed(x) for x in sides):
            return True
        return sum(0 if const_like(x) else 1 for x in sides) >= 2 and not all(
            isinstance(o, (ast.In, ast.NotIn, ast.Is, ast.IsNot)) for o in cond.ops)
    return computed(cond)


@dataclass
class CondRaise:
    """`exc` is raised when all atoms hold.  Atoms are over *places* of `fn`: ('param', name) / ('self', field):
      ('none', place, pol)  ('truthy', place, pol)  ('isinstance', place, type | ('param', name), pol)
      ('pred', predicate, place, pol)  ('enumeq', place, (class fq, member), pol)  ('or', [atoms])"""
    exc: str
    atoms: List[tuple]
    fn: FuncInfo
    origin: Ob
    chain: List[str]

    def key(self):
        return (self.exc, self.origin.ident, repr(self.atoms))


class ExcAnalysis:
    def __init__(self, prog: Program, cg: CallGraph, flow: Flow, abs_: Abs):
        self.prog, self.cg, self.flow, self.abs = prog, cg, flow, abs_
        self.obligations: Dict[str, List[Ob]] = {}
        self.escapes: Dict[str, Dict[Tuple[str, int], Tuple[Ob, List[str]]]] = {}
        self.cond: Dict[str, List[CondRaise]] = {}
        self.reasoned: Callable[[Ob], Optional[str]] = lambda ob: None
        self.unresolved_calls: List[Tuple[FuncInfo, ast.AST, str]] = []
        self.entry_fqs: Set[str] = set()
        self.assumed_well_typed: List[Tuple[FuncInfo, ast.AST, str]] = []
        # False: values of unknown static type are NOT assumed to pass type validators (untrusted input, C15)
        self.trust_untyped = True
        self._param_nonempty_cache: Dict[Tuple[str, str], bool] = {}

    # -- class lattice ------------------------------------------------------------------------------
    def exc_name(self, fn: FuncInfo, e: Optional[ast.expr]) -> str:
        if e is None:
            return '<reraise>'
        if isinstance(e, ast.Call):
            e = e.func
        sym = self.prog.resolve_expr_symbol(fn.module, e)
        if isinstance(sym, ClassInfo):
            return sym.fq
        if isinstance(sym, tuple) and sym[0] == 'ext':
            return sym[1]
        if isinstance(e, ast.Name):
            if e.id in BUILTIN_EXC_PARENT or e.id in BUILTIN_NAMES:
                return e.id
            # a local variable holding an exception instance
            t = strip_opt(self.cg.env(fn).type_of(e))
            if t[0] == 'cls':
                return t[1]
        return f'<unknown:{ast.unparse(e)[:40]}>'

    def is_sub(self, exc: str, base: str) -> bool:
        if exc == base:
            return True
        if exc in self.prog.classes:
            c = self.prog.classes[exc]
            for a in self.prog.ancestors(c):
                nm = a.fq if isinstance(a, ClassInfo) else a.split('.')[-1]
                if nm == base:
                    return True
                if not isinstance(a, ClassInfo) and self.is_sub(nm, base) and nm != exc:
                    return True
            return False
        cur = exc
        seen = set()
        while cur in BUILTIN_EXC_PARENT and cur not in seen:
            seen.add(cur)
            cur = BUILTIN_EXC_PARENT[cur]
            if cur == base:
                return True
        return False

    def is_library_error(self, exc: str) -> bool:
        c = self.prog.classes.get(exc)
        return bool(c and c.is_exception)

    def caught(self, fn: FuncInfo, node: ast.AST, exc: str) -> bool:
        """Is an exception of class `exc` raised at `node` caught inside `fn`?"""
        child = node
        p = self.prog.parent(node)
        while p is not None and p is not fn.node:
            if isinstance(p, ast.Try) and any(child is s for s in p.body):
                for h in p.handlers:
                    if h.type is None:
                        return True
                    types = h.type.elts if isinstance(h.type, ast.Tuple) else [h.type]
                    for t in types:
                        if self.is_sub(exc, self.exc_name(fn, t)):
                            return True
            child = p
            p = self.prog.parent(p)
        return False

    # -- scanning a function ------------------------------------------------------------------------------
    def scan(self, fn: FuncInfo) -> List[Ob]:
        if fn.fq in self.obligations:
            return self.obligations[fn.fq]
        obs: List[Ob] = []
        env = self.cg.env(fn)
        A = self.abs
        prog = self.prog

        def ob(node, kind, exc, text, discharged=None, explicit=False, facts=None):
            o = Ob(fn, node, kind, exc, text, discharged, explicit, facts or [])
            if o.discharged is None:
                o.discharged = self.reasoned(o)
            obs.append(o)
            return o

        bound_in_comps: Set[int] = set()
        for n in iter_own_nodes(fn.node):
            # ---- explicit raise -------------------------------------------------------------------
            if isinstance(n, ast.Raise):
                if n.exc is None:
                    # bare re-raise: the classes of the enclosing handler
                    h = self.flow.enclosing(n, (ast.ExceptHandler,))
                    names = []
                    if h is not None and h.type is not None:
                        ts = h.type.elts if isinstance(h.type, ast.Tuple) else [h.type]
                        names = [self.exc_name(fn, t) for t in ts]
                    for nm in names or ['Exception']:
                        ob(n, 'reraise', nm, 'bare raise', explicit=True, facts=A.facts_at(n))
                else:
                    nm = self.exc_name(fn, n.exc)
                    if nm == 'RecursionError':
                        # what the interpreter itself does at its recursion limit, said explicitly (a value that contains
                        # itself, nesting beyond any depth): depth of the input is out of reach of this analysis either way
                        ob(n, 'raise', nm, 'raise RecursionError', explicit=True, facts=A.facts_at(n),
                           discharged='not decided: RecursionError stands for the interpreter\'s own limit on self-containing / arbitrarily '
                                      'deep values, which this analysis does not bound (DESIGN section 3, C13 / C15 "not decided")')
                        continue
                    ob(n, 'raise', nm, f'raise {nm.split(".")[-1]}', explicit=True, facts=A.facts_at(n))
            elif isinstance(n, ast.Assert):
                ob(n, 'assert', 'AssertionError', 'assert statement', explicit=True,
                   facts=A.facts_at(n) + [(n.test, False)])
            # ---- subscripts -----------------------------------------------------------------------------
            elif isinstance(n, ast.Subscript) and isinstance(n.ctx, ast.Load) and not isinstance(n.slice, ast.Slice):
                self._subscript(fn, n, ob)
            # ---- attribute loads --------------------------------------------------------------------------
            elif isinstance(n, ast.Attribute) and isinstance(n.ctx, ast.Load):
                self._attribute(fn, n, ob)
            # ---- calls -----------------------------------------------------------------------------------------
            elif isinstance(n, ast.Call):
                self._call(fn, n, ob)
            # ---- members of sets / keys of dicts are hashed ----------------------------------------------------------
            elif isinstance(n, (ast.Set, ast.SetComp, ast.Dict, ast.DictComp)):
                keys_ = list(n.elts) if isinstance(n, ast.Set) else [n.elt] if isinstance(n, ast.SetComp) else \
                    [k for k in n.keys if k is not None] if isinstance(n, ast.Dict) else [n.key]
                for k_ in keys_:
                    why_ = self._unhashable(A.type_at(fn, k_, n), 0)
                    if why_ and A.at(fn, k_, n).none != YES:
                        ob(k_, 'unhashable', 'TypeError',
                           f'`{ast.unparse(k_)[:40]}` becomes a {"set member" if isinstance(n, (ast.Set, ast.SetComp)) else "dict key"}: it is '
                           f'hashed, and {why_}')
            # ---- iteration over Optional ------------------------------------------------------------------------
            elif isinstance(n, (ast.For, ast.comprehension)):
                v = A.at(fn, n.iter, n if isinstance(n, ast.For) else n.iter)
                if v.none == YES or (v.none == MAYBE and v.type[0] in ('opt', 'none')):
                    ob(n.iter, 'iter-optional', 'TypeError', f'iteration over possibly-None `{ast.unparse(n.iter)}`')
            # ---- unpacking ------------------------------------------------------------------------------------------
            elif isinstance(n, ast.Assign) and len(n.targets) == 1 and isinstance(n.targets[0], (ast.Tuple, ast.List)):
                tgt = n.targets[0]
                t = strip_opt(A.type_at(fn, n.value, n))
                if t[0] == 'tuple' and t[1] and not any(isinstance(e, ast.Starred) for e in tgt.elts):
                    if len(t[1]) != len(tgt.elts):
                        ob(n, 'unpack', 'ValueError',
                           f'unpacking {len(t[1])} values into {len(tgt.elts)} targets')
                    else:
                        ob(n, 'unpack', 'ValueError', 'unpacking matches the annotated tuple arity',
                           discharged='arity of the annotated tuple equals the number of targets')
                elif isinstance(n.value, (ast.Tuple, ast.List)) and len(n.value.elts) == len(tgt.elts):
                    pass
                elif sum(isinstance(e, ast.Starred) for e in tgt.elts) == 1 and len(tgt.elts) == 2 and \
                        A.at(fn, n.value, n).truthy == YES:
                    # `first, *rest = xs` needs one element: a non-emptiness test dominates
                    ob(n, 'unpack', 'ValueError', f'`{ast.unparse(n)[:60]}`',
                       discharged='head / rest unpacking of a sequence that a dominating test shows to be non-empty')
                elif sum(isinstance(e, ast.Starred) for e in tgt.elts) == 1 and len(tgt.elts) == 2 and isinstance(n.value, ast.Name) and \
                        self._param_nonempty_everywhere(fn, n.value.id):
                    ob(n, 'unpack', 'ValueError', f'`{ast.unparse(n)[:60]}`',
                       discharged=f'head / rest unpacking of parameter `{n.value.id}`, which is non-empty at every call site of {fn.qualname}')
                elif self._unpack_of_returned_tuple(fn, n, len(tgt.elts)):
                    ob(n, 'unpack', 'ValueError', f'`{ast.unparse(n)[:60]}`',
                       discharged='every return of the called package function is a tuple display of that length')
                elif not any(isinstance(e, ast.Starred) for e in tgt.elts) and self._unpack_of_table_entry(fn, n, len(tgt.elts)):
                    ob(n, 'unpack', 'ValueError', f'`{ast.unparse(n)[:60]}`',
                       discharged='the value is an entry of a constant table of the package whose entries are all tuples of that '
                                  'length (a missed lookup is None and is tested for before)')
                else:
                    ob(n, 'unpack', 'ValueError', f'unpacking a value of unknown length: `{ast.unparse(n.value)[:60]}`')
            # ---- arithmetic ---------------------------------------------------------------------------------------------
            elif isinstance(n, ast.BinOp):
                if isinstance(n.op, (ast.Div, ast.FloorDiv, ast.Mod)):
                    lt = strip_opt(A.type_at(fn, n.left, n))
                    if not (isinstance(n.op, ast.Mod) and lt[0] == 'str'):
                        if not (isinstance(n.right, ast.Constant) and isinstance(n.right.value, (int, float))
                                and n.right.value != 0):
                            ob(n, 'division', 'ZeroDivisionError', f'division by `{ast.unparse(n.right)}`')
                elif isinstance(n.op, ast.Add):
                    lt, rt = strip_opt(A.type_at(fn, n.left, n)), strip_opt(A.type_at(fn, n.right, n))
                    lo, ro = A.at(fn, n.left, n), A.at(fn, n.right, n)
                    if (lt[0] == 'str' and (rt[0] in ('int', 'list', 'cls', 'none') or ro.none == YES)) or \
                            (rt[0] == 'str' and (lt[0] in ('int', 'list', 'cls', 'none') or lo.none == YES)):
                        ob(n, 'add-mismatch', 'TypeError', f'`{ast.unparse(n)[:60]}` adds str and {rt[0] if lt[0] == "str" else lt[0]}')
                    elif (lt[0] in ('str', 'list') and ro.none == MAYBE and A.type_at(fn, n.right, n)[0] == 'opt') or \
                            (rt[0] in ('str', 'list') and lo.none == MAYBE and A.type_at(fn, n.left, n)[0] == 'opt'):
                        ob(n, 'add-optional', 'TypeError', f'`{ast.unparse(n)[:60]}` adds a possibly-None operand')
            # ---- names ------------------------------------------------------------------------------------------------------
            elif isinstance(n, ast.Name) and isinstance(n.ctx, ast.Load):
                if not self._name_defined(fn, n.id):
                    ob(n, 'name', 'NameError', f'name `{n.id}` is not defined')
        # ---- definite assignment ---------------------------------------------------------------------------------------------
        for node, name in self._unbound_uses(fn):
            ob(node, 'unbound-local', 'UnboundLocalError', f'local `{name}` may be used before assignment')
        self.obligations[fn.fq] = obs
        return obs

    # -- helpers: names ---------------------------------------------------------------------------------------
    def _name_defined(self, fn: FuncInfo, name: str) -> bool:
        f: Optional[FuncInfo] = fn
        while f is not None:
            env = self.cg.env(f)
            if name in env.vars or name in env._assign_sites or name in f.nested:
                return True
            f = f.parent
        if self.prog.resolve_name(fn.module, name) is not None:
            return True
        if name in fn.module.imports or name in fn.module.classes or name in fn.module.functions:
            return True
        if name in BUILTIN_NAMES:
            return True
        # names bound by import statements / defs inside the function
        for n in ast.walk(fn.node):
            if isinstance(n, (ast.Import, ast.ImportFrom)):
                for a in n.names:
                    if (a.asname or a.name.split('.')[0]) == name:
                        return True
            if isinstance(n, (ast.FunctionDef, ast.ClassDef)) and n.name == name:
                return True
        return False

    def _unbound_uses(self, fn: FuncInfo) -> List[Tuple[ast.AST, str]]:
        """Uses of function-local names that are not definitely assigned (structured code)."""
        params = {a.arg for a in fn.params()}
        if fn.node.args.vararg:
            params.add(fn.node.args.vararg.arg)
        if fn.node.args.kwarg:
            params.add(fn.node.args.kwarg.arg)
        comp_bound: Set[str] = set()
        stmt_bound: Set[str] = set()
        for n in iter_own_nodes(fn.node):
            if isinstance(n, ast.comprehension):
                for x in ast.walk(n.target):
                    if isinstance(x, ast.Name):
                        comp_bound.add(x.id)
            elif isinstance(n, ast.Name) and isinstance(n.ctx, ast.Store):
                stmt_bound.add(n.id)
            elif isinstance(n, ast.ExceptHandler) and n.name:
                stmt_bound.add(n.name)
        # names stored only in comprehensions are comprehension-scoped
        for n in iter_own_nodes(fn.node):
            pass
        real_locals = set()
        for n in iter_own_nodes(fn.node):
            if isinstance(n, ast.Name) and isinstance(n.ctx, ast.Store):
                p = self.prog.parent(n)
                in_comp = False
                q = n
                while q is not None and q is not fn.node:
                    if isinstance(q, ast.comprehension):
                        in_comp = True
                        break
                    if isinstance(q, ast.stmt):
                        break
                    q = self.prog.parent(q)
                if not in_comp:
                    real_locals.add(n.id)
            elif isinstance(n, ast.ExceptHandler) and n.name:
                real_locals.add(n.name)
        real_locals -= params
        out: List[Tuple[ast.AST, str]] = []

        def uses(expr: ast.AST, D: Set[str], shadow: Set[str] = frozenset()):
            if expr is None:
                return
            if isinstance(expr, (ast.ListComp, ast.SetComp, ast.GeneratorExp, ast.DictComp)):
                sh = set(shadow)
                for g in expr.generators:
                    uses(g.iter, D, sh)
                    for x in ast.walk(g.target):
                        if isinstance(x, ast.Name):
                            sh.add(x.id)
                    for c in g.ifs:
                        uses(c, D, sh)
                if isinstance(expr, ast.DictComp):
                    uses(expr.key, D, sh)
                    uses(expr.value, D, sh)
                else:
                    uses(expr.elt, D, sh)
                return
            if isinstance(expr, ast.Lambda):
                sh = set(shadow) | {a.arg for a in expr.args.args}
                uses(expr.body, D, sh)
                return
            if isinstance(expr, (ast.FunctionDef, ast.AsyncFunctionDef, ast.ClassDef)):
                return
            if isinstance(expr, ast.Name):
                if isinstance(expr.ctx, ast.Load) and expr.id in real_locals and expr.id not in D \
                        and expr.id not in shadow:
                    out.append((expr, expr.id))
                return
            if isinstance(expr, ast.NamedExpr):
                uses(expr.value, D, shadow)
                D.add(expr.target.id)
                return
            for c in ast.iter_child_nodes(expr):
                uses(c, D, shadow)

        def bind(t: ast.AST, D: Set[str]):
            for x in ast.walk(t):
                if isinstance(x, ast.Name) and isinstance(x.ctx, ast.Store):
                    D.add(x.id)

        def block(stmts: List[ast.stmt], D: Set[str]) -> Optional[Set[str]]:
            """Returns the definitely-assigned set after the block, None if the block never falls through."""
            cur: Optional[Set[str]] = set(D)
            for s in stmts:
                if cur is None:
                    break
                cur = stmt(s, cur)
            return cur

        def stmt(s: ast.stmt, D: Set[str]) -> Optional[Set[str]]:
            if isinstance(s, (ast.FunctionDef, ast.AsyncFunctionDef, ast.ClassDef)):
                D.add(s.name)
                return D
            if isinstance(s, ast.Assign):
                uses(s.value, D)
                for t in s.targets:
                    for sub in ast.walk(t):
                        if isinstance(sub, (ast.Subscript, ast.Attribute)):
                            uses(sub.value, D)
                            if isinstance(sub, ast.Subscript):
                                uses(sub.slice, D)
                    bind(t, D)
                return D
            if isinstance(s, ast.AnnAssign):
                if s.value is not None:
                    uses(s.value, D)
                    bind(s.target, D)
                return D
            if isinstance(s, ast.AugAssign):
                uses(s.value, D)
                if isinstance(s.target, ast.Name):
                    if s.target.id in real_locals and s.target.id not in D:
                        out.append((s.target, s.target.id))
                else:
                    uses(s.target, D)
                bind(s.target, D)
                return D
            if isinstance(s, (ast.Return, ast.Raise)):
                for c in ast.iter_child_nodes(s):
                    uses(c, D)
                return None
            if isinstance(s, (ast.Break, ast.Continue)):
                return None
            if isinstance(s, ast.If):
                uses(s.test, D)
                a = block(s.body, set(D))
                b = block(s.orelse, set(D)) if s.orelse else set(D)
                if a is None and b is None:
                    return None
                if a is None:
                    return b
                if b is None:
                    return a
                return a & b
            if isinstance(s, (ast.For, ast.AsyncFor)):
                uses(s.iter, D)
                inner = set(D)
                bind(s.target, inner)
                block(s.body, inner)
                after = set(D)
                if s.orelse:
                    r = block(s.orelse, set(D))
                    after = r if r is not None else after
                return after
            if isinstance(s, ast.While):
                uses(s.test, D)
                block(s.body, set(D))
                return set(D)
            if isinstance(s, ast.With):
                for item in s.items:
                    uses(item.context_expr, D)
                    if item.optional_vars is not None:
                        bind(item.optional_vars, D)
                return block(s.body, D)
            if isinstance(s, ast.Try):
                body_out = block(s.body, set(D))
                if body_out is not None and s.orelse:
                    body_out = block(s.orelse, body_out)
                outs = [body_out] if body_out is not None else []
                for h in s.handlers:
                    hd = set(D)
                    if h.name:
                        hd.add(h.name)
                    r = block(h.body, hd)
                    if r is not None:
                        outs.append(r - ({h.name} if h.name else set()))
                if not outs:
                    res = None
                else:
                    res = set.intersection(*outs)
                if s.finalbody:
                    fr = block(s.finalbody, set(res) if res is not None else set(D))
                    if fr is None:
                        return None
                    if res is not None:
                        res = fr
                return res
            if isinstance(s, ast.Expr):
                uses(s.value, D)
                return D
            if isinstance(s, (ast.Import, ast.ImportFrom)):
                for a in s.names:
                    D.add(a.asname or a.name.split('.')[0])
                return D
            if isinstance(s, ast.Delete):
                for t in s.targets:
                    if isinstance(t, ast.Name):
                        D.discard(t.id)
                return D
            if isinstance(s, ast.Assert):
                uses(s.test, D)
                return D
            for c in ast.iter_child_nodes(s):
                uses(c, D)
            return D

        block(fn.node.body, set(params))
        return out

    # -- helpers: subscripts ------------------------------------------------------------------------------------------
    def _subscript(self, fn: FuncInfo, n: ast.Subscript, ob):
        A = self.abs
        recv, idx = n.value, n.slice
        rt_full = A.type_at(fn, recv, n)
        rt = strip_opt(rt_full)
        rv = A.at(fn, recv, n)
        if rv.none == YES or (rt_full[0] in ('opt', 'none') and rv.none != NO):
            ob(n, 'subscript-optional', 'TypeError', f'subscript of possibly-None `{ast.unparse(recv)}`')
            return
        if rt[0] in ('type',):       # typing generic such as List[str] in an expression
            return
        # typing subscripts in annotations inside the function are not evaluated at run time in a way that fails
        if self._in_annotation(n):
            return
        idx_is_int = isinstance(idx, ast.Constant) and isinstance(idx.value, int) or \
            (isinstance(idx, ast.UnaryOp) and isinstance(idx.op, ast.USub) and isinstance(idx.operand, ast.Constant))
        idx_val = None
        if isinstance(idx, ast.Constant) and isinstance(idx.value, int):
            idx_val = idx.value
        elif isinstance(idx, ast.UnaryOp) and isinstance(idx.op, ast.USub) and isinstance(idx.operand, ast.Constant) \
                and isinstance(idx.operand.value, int):
            idx_val = -idx.operand.value
        text = f'`{ast.unparse(n)[:70]}`'
        if rt[0] == 'dict' or (rt[0] == 'any' and not idx_is_int):
            why = self._total_table(fn, recv, idx, n)
            if why:
                ob(n, 'subscript', 'KeyError', text, discharged=why)
                return
            # membership guard
            for cond, pol in A.facts_at(n):
                if isinstance(cond, ast.Compare) and len(cond.ops) == 1 and same_expr(cond.left, idx) and \
                        ((isinstance(cond.ops[0], ast.In) and pol) or (isinstance(cond.ops[0], ast.NotIn) and not pol)):
                    if same_expr(cond.comparators[0], recv):
                        ob(n, 'subscript', 'KeyError', text, discharged='membership test dominates the lookup')
                        return
                    via = self._contains_delegate(fn, cond.comparators[0], n)
                    if via is not None and same_expr(via, recv):
                        ob(n, 'subscript', 'KeyError', text,
                           discharged=f'membership test dominates the lookup (`in {ast.unparse(cond.comparators[0])}` is __contains__, which tests '
                                      f'`in {ast.unparse(recv)}`)')
                        return
            why = self._enum_keyed_display(fn, recv, idx, n)
            if why:
                ob(n, 'subscript', 'KeyError', text, discharged=why)
                return
            # ensured entry: an earlier statement on every path to here stores the key - `d[k] = v`, possibly under
            # `if k not in d:` (the memo idiom: absent -> stored, present -> present)
            for st in self.flow.dominating_stmts(n):
                stores = [st] if isinstance(st, ast.Assign) else \
                    ([x for x in st.body if isinstance(x, ast.Assign)] if isinstance(st, ast.If) and not st.orelse and
                     isinstance(st.test, ast.Compare) and len(st.test.ops) == 1 and isinstance(st.test.ops[0], ast.NotIn) and
                     same_expr(st.test.left, idx) and same_expr(st.test.comparators[0], recv) else [])
                for a in stores:
                    if any(isinstance(t, ast.Subscript) and same_expr(t.value, recv) and same_expr(t.slice, idx) for t in a.targets):
                        ob(n, 'subscript', 'KeyError', text, discharged='the key is stored on every path before the lookup')
                        return
            ob(n, 'subscript', 'KeyError' if rt[0] == 'dict' else 'LookupError', text + ' without a dominating membership test')
            return
        if rt[0] == 'tuple' and idx_val is not None and rt[1]:
            if -len(rt[1]) <= idx_val < len(rt[1]):
                ob(n, 'subscript', 'IndexError', text, discharged=f'index within the annotated {len(rt[1])}-tuple')
                return
        if isinstance(recv, ast.Call):
            sym = self.prog.resolve_expr_symbol(fn.module, recv.func)
            if isinstance(sym, tuple) and sym[0] == 'ext' and sym[1] in ('os.path.splitext', 'os.path.split') \
                    and idx_val in (0, 1, -1, -2):
                ob(n, 'subscript', 'IndexError', text, discharged=f'{sym[1]} returns a pair (stdlib contract)')
                return
        if idx_val in (0, -1):
            if rv.truthy == YES:
                ob(n, 'subscript', 'IndexError', text, discharged='non-emptiness test dominates the access')
                return
            why = self._invariant_nonempty(fn, recv, n) or self._field_nonempty_everywhere(fn, recv, n)
            if why:
                ob(n, 'subscript', 'IndexError', text, discharged=why)
                return
            if isinstance(recv, ast.Name) and self._param_nonempty_everywhere(fn, recv.id):
                ob(n, 'subscript', 'IndexError', text,
                   discharged=f'parameter `{recv.id}` is non-empty at every call site of {fn.qualname}')
                return
            why = self._param_path_nonempty(fn, recv)
            if why:
                ob(n, 'subscript', 'IndexError', text, discharged=why)
                return
            ob(n, 'subscript', 'IndexError', text + ' on a possibly empty sequence')
            return
        why = self._bounded_index(fn, recv, idx, n)
        if why:
            ob(n, 'subscript', 'IndexError', text, discharged=why)
            return
        ob(n, 'subscript', 'IndexError' if rt[0] in ('list', 'str', 'tuple') or idx_is_int else 'LookupError',
           text + ' with an index that is not bounded by a guard')

    def _contains_delegate(self, fn: FuncInfo, container: ast.expr, node: ast.AST) -> Optional[ast.expr]:
        """`k in <container>` where the container is an instance of a package class whose __contains__ is
        `return <key> in self.<F>`: the expression `<container>.<F>` (for `self`: `self.<F>`), else None."""
        t = strip_opt(self.abs.type_at(fn, container, node))
        c = self.prog.classes.get(t[1]) if t[0] == 'cls' else None
        m = self.prog.lookup_method(c, '__contains__') if c is not None else None
        if m is None:
            return None
        body = [st for st in m.node.body if not (isinstance(st, ast.Expr) and isinstance(st.value, ast.Constant))]
        ps = [a.arg for a in m.params()]
        if len(body) != 1 or not isinstance(body[0], ast.Return) or len(ps) != 2:
            return None
        r = body[0].value
        if not (isinstance(r, ast.Compare) and len(r.ops) == 1 and isinstance(r.ops[0], ast.In) and isinstance(r.left, ast.Name) and
                r.left.id == ps[1] and isinstance(r.comparators[0], ast.Attribute) and isinstance(r.comparators[0].value, ast.Name) and
                r.comparators[0].value.id == ps[0]):
            return None
        out = ast.Attribute(value=container, attr=r.comparators[0].attr, ctx=ast.Load())
        return ast.copy_location(out, container)

    def _enum_keyed_display(self, fn: FuncInfo, recv: ast.expr, idx: ast.expr, node: ast.AST) -> Optional[str]:
        """`d[k]` with d a local bound once to a dict display whose keys are members of one enum E, never shrunk or rebound,
        and k (a) one of those members, or (b) a local / parameter of type E: then, member by member, the conditions that
        dominate the lookup are evaluated with k := member (dznverif.scenario; they may only mention k) - every member under
        which they can all hold has to be a key."""
        prog = self.prog
        if not isinstance(recv, ast.Name):
            return None
        env = self.cg.env(fn)
        d = env.single_def(recv.id)
        if not isinstance(d, ast.Dict) or not d.keys or any(k is None for k in d.keys):
            return None
        syms = [prog.resolve_expr_symbol(fn.module, k) if isinstance(k, (ast.Name, ast.Attribute)) else None for k in d.keys]
        if not all(isinstance(x, tuple) and x[0] == 'enum_member' for x in syms) or len({x[1].fq for x in syms}) != 1:
            return None
        en: ClassInfo = syms[0][1]
        keys = {x[2] for x in syms}
        for x in iter_own_nodes(fn.node):
            if isinstance(x, ast.Delete) and any(isinstance(t, ast.Subscript) and isinstance(t.value, ast.Name) and t.value.id == recv.id
                                                 for t in x.targets):
                return None
            if isinstance(x, ast.Call) and isinstance(x.func, ast.Attribute) and isinstance(x.func.value, ast.Name) and \
                    x.func.value.id == recv.id and x.func.attr in ('pop', 'popitem', 'clear'):
                return None
        isym = prog.resolve_expr_symbol(fn.module, idx) if isinstance(idx, (ast.Name, ast.Attribute)) else None
        if isinstance(isym, tuple) and isym[0] == 'enum_member' and isym[1] is en:
            return f'`{recv.id}` is a local table with the key {en.name}.{isym[2]}' if isym[2] in keys else None
        if not isinstance(idx, ast.Name) or strip_opt(self.abs.type_at(fn, idx, node)) != ('cls', en.fq) or \
                self.abs.at(fn, idx, node).none != NO:
            return None
        from .scenario import Interp, EnumV, Undecided, Raised
        conds = [(c, pol) for c, pol in self.abs.facts_at(node)
                 if {x.id for x in ast.walk(c) if isinstance(x, ast.Name)} - set(dir(__import__('builtins'))) <= {idx.id} | {en.name}]
        feasible = []
        for member in en.enum_members:
            ok = True
            for c, pol in conds:
                try:
                    v = Interp(prog).eval(c, {idx.id: EnumV(en, member)}, fn, 0)
                    if bool(Interp(prog).truth(v)) != pol:
                        ok = False
                        break
                except (Undecided, Raised):
                    continue
            if ok:
                feasible.append(member)
        if all(m in keys for m in feasible):
            return (f'`{recv.id}` is a local table keyed by {en.name}; under the conditions that dominate the lookup `{idx.id}` can only be '
                    f'{" / ".join(feasible) or "nothing"} (each member evaluated), all of them keys')
        return None

    def _unpack_of_returned_tuple(self, fn: FuncInfo, n: ast.Assign, arity: int) -> bool:
        v = n.value
        if not isinstance(v, ast.Call) or any(isinstance(e, ast.Starred) for e in n.targets[0].elts):
            return False
        cs = [c for c in self.cg.env(fn).resolve_call(v) if isinstance(c, FuncInfo)]
        if len(cs) != 1:
            return False
        rets = [r for r in iter_own_nodes(cs[0].node) if isinstance(r, ast.Return)]

        def record_of(r: ast.Return) -> bool:
            # a NamedTuple of the package: as many values as it has fields
            if not isinstance(r.value, ast.Call) or not isinstance(r.value.func, (ast.Name, ast.Attribute)):
                return False
            c = self.prog.resolve_expr_symbol(cs[0].module, r.value.func)
            return isinstance(c, ClassInfo) and any(str(b).split('.')[-1] == 'NamedTuple' for b in c.bases) and \
                len(self.prog.class_fields(c)) == arity
        return bool(rets) and all((isinstance(r.value, ast.Tuple) and len(r.value.elts) == arity and
                                   not any(isinstance(e, ast.Starred) for e in r.value.elts)) or record_of(r) for r in rets)

    def _unpack_of_table_entry(self, fn: FuncInfo, n: ast.Assign, arity: int) -> bool:
        try:
            entries = self._table_entries(fn, n.value, 0)
        except Exception:       # pylint: disable=broad-except
            return False
        if not entries or not all(isinstance(e, ast.Tuple) and len(e.elts) == arity and
                                  not any(isinstance(x, ast.Starred) for x in e.elts) for e in entries):
            return False
        # None (a miss) must be excluded on this path
        return self.abs.at(fn, n.value, n).none == NO

    def _getattr_from_table(self, fn: FuncInfo, n: ast.Call) -> Optional[str]:
        """getattr(obj, name): obj has a known class and `name` can only be one of the strings that a constant table of the
        package holds at that position (`_, list_name, _ = TABLE[k]`, `route.collection`, `NAMES[k]`), all of which are
        attributes of the class."""
        prog = self.prog
        t = strip_opt(self.abs.type_at(fn, n.args[0], n))
        cls = prog.classes.get(t[1]) if t[0] == 'cls' else None
        if cls is None:
            return None
        names = self._table_strings(fn, n.args[1], 0)
        if not names:
            return None
        attrs = set(prog.class_fields(cls)) | {m for a in prog.ancestors(cls) if isinstance(a, ClassInfo) for m in a.methods}
        if all(nm in attrs for nm in names):
            return f'the name is one of {sorted(set(names))[:8]} (constant table of the package), all attributes of {cls.name}'
        return None

    def _table_entries(self, fn: FuncInfo, e: ast.expr, depth: int, subst: Optional[Dict[str, ast.expr]] = None) -> Optional[List[ast.expr]]:
        """The constant entries `e` may evaluate to when it is a lookup in a constant table of the package; None: unknown.
        (A miss of the lookup - None - is not an entry: the use of the value is guarded or fails on its own.)"""
        prog = self.prog
        if depth > 6:
            return None
        env = self.cg.env(fn)
        if isinstance(e, ast.Name):
            if subst and e.id in subst:
                return self._table_entries(subst[e.id][0], subst[e.id][1], depth + 1)
            sites = env._assign_sites.get(e.id, [])
            if e.id not in env.vars and not sites:
                sym = prog.resolve_name(fn.module, e.id)
                if isinstance(sym, tuple) and sym[0] == 'const':
                    node = sym[1]
                    if isinstance(node, ast.Call) and getattr(node.func, 'id', getattr(node.func, 'attr', '')) == 'MappingProxyType' \
                            and len(node.args) == 1:
                        node = node.args[0]
                    return [node]
                return None
            if len(sites) == 1 and sites[0][0] == 'expr':
                return self._table_entries(fn, sites[0][1], depth + 1, subst)
            return None
        if isinstance(e, ast.Constant) and e.value is None:
            return []
        if isinstance(e, ast.IfExp):
            a, b = self._table_entries(fn, e.body, depth + 1, subst), self._table_entries(fn, e.orelse, depth + 1, subst)
            return None if a is None or b is None else a + b
        if isinstance(e, ast.Subscript) or (isinstance(e, ast.Call) and isinstance(e.func, ast.Attribute) and e.func.attr == 'get'):
            base = e.value if isinstance(e, ast.Subscript) else e.func.value
            tabs = self._table_entries(fn, base, depth + 1, subst)
            if tabs is None:
                return None
            out: List[ast.expr] = []
            for tnode in tabs:
                if isinstance(tnode, ast.Dict):
                    out.extend(tnode.values)
                elif isinstance(tnode, (ast.Tuple, ast.List)):
                    out.extend(tnode.elts)
                else:
                    return None
            return out
        if isinstance(e, ast.Call) and isinstance(e.func, (ast.Name, ast.Attribute)):
            sym = prog.resolve_expr_symbol(fn.module, e.func)
            if isinstance(sym, FuncInfo):
                rets = [r.value for r in iter_own_nodes(sym.node) if isinstance(r, ast.Return) and r.value is not None]
                if not rets:
                    return None
                bind = prog.bind_call(fn.module, e)
                sub = {k: (fn, v) for k, v in bind.items()}
                out = []
                for r in rets:
                    x = self._table_entries(sym, r, depth + 1, sub)
                    if x is None:
                        return None
                    out.extend(x)
                return out
        return None

    def _table_strings(self, fn: FuncInfo, e: ast.expr, depth: int) -> Optional[List[str]]:
        prog = self.prog
        env = self.cg.env(fn)
        if depth > 6:
            return None
        if isinstance(e, ast.Constant) and isinstance(e.value, str):
            return [e.value]
        entries = None
        pick = None
        if isinstance(e, ast.Name):
            sites = env._assign_sites.get(e.id, [])
            if len(sites) != 1:
                return None
            site = sites[0]
            if site[0] == 'expr':
                return self._table_strings(fn, site[1], depth + 1)
            if site[0] == 'item' and site[1][0] == 'expr':
                entries = self._table_entries(fn, site[1][1], depth + 1)
                idx = site[2]
                pick = lambda ent: ent.elts[idx] if isinstance(ent, (ast.Tuple, ast.List)) and idx < len(ent.elts) else None
        elif isinstance(e, ast.Attribute):
            entries = self._table_entries(fn, e.value, depth + 1)
            attr = e.attr

            def pick(ent, attr=attr):
                if isinstance(ent, ast.Call):
                    # constructor of a record class of the package: the argument bound to that field
                    for m_ in prog.modules.values():
                        b = prog.bind_call(m_, ent)
                        if attr in b:
                            return b[attr]
                return None
        else:
            entries = self._table_entries(fn, e, depth + 1)
            pick = lambda ent: ent
        if not entries or pick is None:
            return None
        out = []
        for ent in entries:
            v = pick(ent)
            if not (isinstance(v, ast.Constant) and isinstance(v.value, str)):
                return None
            out.append(v.value)
        return out

    def _total_table(self, fn: FuncInfo, recv: ast.expr, idx: ast.expr, node: ast.AST) -> Optional[str]:
        """The lookup cannot miss: (a) a module-level dict display that nothing in the package modifies, looked up with a
        constant that is one of its keys; (b) a dict that has an entry for every member of an enum (a display listing all
        members, or `{m: ... for m in E}`), never shrunk, looked up with a value of that enum type."""
        prog = self.prog
        if isinstance(recv, ast.Attribute) and isinstance(recv.value, ast.Name) and recv.value.id in ('self', 'cls') and fn.cls is not None:
            # a class-level table (`self._BUILDERS[key]`): a dict display in the class body with an entry for every member of
            # the enum the key has, that nothing in the package writes
            for c_ in [fn.cls] + [a_ for a_ in prog.ancestors(fn.cls) if isinstance(a_, ClassInfo) and a_ is not fn.cls]:
                for st_ in c_.node.body:
                    tg_ = st_.targets[0] if isinstance(st_, ast.Assign) and len(st_.targets) == 1 else \
                        st_.target if isinstance(st_, ast.AnnAssign) and st_.value is not None else None
                    if isinstance(tg_, ast.Name) and tg_.id == recv.attr and isinstance(st_.value, ast.Dict) and st_.value.keys and \
                            all(k is not None for k in st_.value.keys):
                        syms_ = [prog.resolve_expr_symbol(c_.module, k) if isinstance(k, (ast.Name, ast.Attribute)) else None
                                 for k in st_.value.keys]
                        if all(isinstance(x, tuple) and x[0] == 'enum_member' for x in syms_) and len({x[1].fq for x in syms_}) == 1:
                            en_ = syms_[0][1]
                            written = any(isinstance(y, ast.Attribute) and y.attr == recv.attr and (
                                isinstance(y.ctx, (ast.Store, ast.Del)) or
                                (isinstance(prog.parent(y), ast.Subscript) and isinstance(prog.parent(y).ctx, (ast.Store, ast.Del))) or
                                (isinstance(prog.parent(y), ast.Attribute) and prog.parent(y).attr in
                                 ('pop', 'popitem', 'clear', 'update', 'setdefault')))
                                for m_ in prog.modules.values() for y in ast.walk(m_.tree))
                            if {x[2] for x in syms_} == set(en_.enum_members) and not written and \
                                    strip_opt(self.abs.type_at(fn, idx, node)) == ('cls', en_.fq) and self.abs.at(fn, idx, node).none == NO:
                                return (f'`{recv.attr}` is a class-level constant table with an entry for every member of {en_.name}, '
                                        f'looked up with a {en_.name}')
            return None
        if not isinstance(recv, ast.Name):
            return None
        name = recv.id
        env = self.cg.env(fn)

        def key_id(k: ast.expr):
            if isinstance(k, ast.Constant):
                return ('const', repr(k.value))
            sym = prog.resolve_expr_symbol(fn.module, k) if isinstance(k, (ast.Name, ast.Attribute)) else None
            if isinstance(sym, tuple) and sym[0] == 'enum_member':
                return ('enum', sym[1].fq, sym[2])
            if isinstance(sym, tuple) and sym[0] == 'const' and isinstance(sym[1], ast.Constant):
                return ('const', repr(sym[1].value))
            return None

        def total_over_enum(d: ast.expr):
            if isinstance(d, ast.DictComp) and len(d.generators) == 1 and not d.generators[0].ifs and \
                    isinstance(d.generators[0].target, ast.Name) and isinstance(d.key, ast.Name) and \
                    d.key.id == d.generators[0].target.id:
                c = prog.resolve_expr_symbol(fn.module, d.generators[0].iter) \
                    if isinstance(d.generators[0].iter, (ast.Name, ast.Attribute)) else None
                if isinstance(c, ClassInfo) and c.is_enum:
                    return c
            if isinstance(d, ast.Dict) and d.keys and all(k is not None for k in d.keys):
                ids = [key_id(k) for k in d.keys]
                if all(i is not None and i[0] == 'enum' for i in ids) and len({i[1] for i in ids}) == 1:
                    c = prog.classes.get(ids[0][1])
                    if c is not None and {i[2] for i in ids} == set(c.enum_members):
                        return c
            return None

        def shrinks(scope_nodes) -> bool:
            for x in scope_nodes:
                if isinstance(x, ast.Delete) and any(isinstance(t, ast.Subscript) and isinstance(t.value, ast.Name)
                                                      and t.value.id == name for t in x.targets):
                    return True
                if isinstance(x, ast.Call) and isinstance(x.func, ast.Attribute) and isinstance(x.func.value, ast.Name) and \
                        x.func.value.id == name and x.func.attr in ('pop', 'popitem', 'clear'):
                    return True
            return False

        local_sites = env._assign_sites.get(name, [])
        if name not in env.vars and not local_sites:
            sym = prog.resolve_name(fn.module, name)
            if isinstance(sym, tuple) and sym[0] == 'const' and isinstance(sym[1], ast.Dict):
                d, mod = sym[1], sym[2]
                # nothing in the package writes the table
                for f2 in prog.all_functions():
                    for x in iter_own_nodes(f2.node):
                        tgt = None
                        if isinstance(x, ast.Subscript) and isinstance(x.ctx, (ast.Store, ast.Del)):
                            tgt = x.value
                        elif isinstance(x, ast.Call) and isinstance(x.func, ast.Attribute) and x.func.attr in (
                                'pop', 'popitem', 'clear', 'update', 'setdefault', '__setitem__', '__delitem__'):
                            tgt = x.func.value
                        if tgt is not None:
                            ts = prog.resolve_expr_symbol(f2.module, tgt) if isinstance(tgt, (ast.Name, ast.Attribute)) else None
                            if isinstance(ts, tuple) and ts[0] == 'const' and ts[1] is d:
                                return None
                kid = key_id(idx)
                if kid is not None and any(key_id_mod(prog, mod, k) == kid for k in d.keys if k is not None):
                    return f'`{name}` is a constant table of {mod.name} that has the key `{ast.unparse(idx)}`'
                en = None
                ids = [key_id_mod(prog, mod, k) for k in d.keys if k is not None]
                if ids and all(i is not None and i[0] == 'enum' for i in ids) and len({i[1] for i in ids}) == 1:
                    c = prog.classes.get(ids[0][1])
                    if c is not None and {i[2] for i in ids} == set(c.enum_members):
                        en = c
                if en is not None and strip_opt(self.abs.type_at(fn, idx, node)) == ('cls', en.fq) and \
                        self.abs.at(fn, idx, node).none == NO:
                    return f'`{name}` is a constant table with an entry for every member of {en.name}'
            return None
        def local_def(f: FuncInfo, nm: str) -> Optional[ast.expr]:
            sites = self.cg.env(f)._assign_sites.get(nm, [])
            if len(sites) != 1:
                return None
            if sites[0][0] == 'expr':
                return sites[0][1]
            if sites[0][0] == 'ann':
                vals = [x.value for x in iter_own_nodes(f.node) if isinstance(x, ast.AnnAssign) and x.value is not None
                        and isinstance(x.target, ast.Name) and x.target.id == nm]
                return vals[0] if len(vals) == 1 else None
            return None

        d0 = local_def(fn, name)
        if d0 is not None:
            en = total_over_enum(d0)
            if en is None and isinstance(d0, ast.Call):
                # the table is made by a package function that returns, on every path, a local table of that kind
                callees = [c for c in env.resolve_call(d0) if isinstance(c, FuncInfo)]
                if len(callees) == 1:
                    cf = callees[0]
                    rets = [r for r in iter_own_nodes(cf.node) if isinstance(r, ast.Return)]
                    if rets and all(isinstance(r.value, ast.Name) for r in rets) and len({r.value.id for r in rets}) == 1:
                        rn = rets[0].value.id
                        dd = local_def(cf, rn)
                        inner = name
                        name = rn
                        ok_inner = dd is not None and total_over_enum(dd) is not None and not shrinks(iter_own_nodes(cf.node))
                        name = inner
                        if ok_inner:
                            en = total_over_enum(dd)
            if en is not None and not shrinks(iter_own_nodes(fn.node)):
                it = self.abs.type_at(fn, idx, node)
                kid = key_id(idx)

                def member_expr(e: ast.expr, depth: int = 0) -> bool:
                    k = key_id(e)
                    if k is not None:
                        return k[0] == 'enum' and k[1] == en.fq
                    if isinstance(e, ast.IfExp):
                        return member_expr(e.body, depth + 1) and member_expr(e.orelse, depth + 1)
                    if isinstance(e, ast.Name) and depth < 4:
                        sites = env._assign_sites.get(e.id, [])
                        if not sites or e.id in [a.arg for a in fn.params()]:
                            return False
                        for kind_, src_ in [(x[0], x[1]) for x in sites]:
                            if kind_ == 'expr':
                                if not member_expr(src_, depth + 1):
                                    return False
                            elif kind_ == 'elem':
                                # bound by iterating the enum class itself (every element is a member)
                                c = prog.resolve_expr_symbol(fn.module, src_) if isinstance(src_, (ast.Name, ast.Attribute)) else None
                                if c is not en:
                                    return False
                            else:
                                return False
                        return True
                    return False

                if member_expr(idx) or (kid is not None and kid[0] == 'enum' and kid[1] == en.fq) or \
                        (strip_opt(it) == ('cls', en.fq) and it[0] != 'opt' and self.abs.at(fn, idx, node).none != YES):
                    return f'`{name}` has an entry for every member of {en.name} and is never shrunk'
        return None

    def _bounded_index(self, fn: FuncInfo, recv: ast.expr, idx: ast.expr, node: ast.AST) -> Optional[str]:
        """`recv[i]` / `recv[u - 1]` with integer locals whose every assignment is monotone: i starts at a constant >= 0 and is
        only incremented, u starts at len(recv) and is only decremented; a dominating test (the left operands of the same
        `and`, an enclosing while / if) orders them: i < u  (so 0 <= i < len), or u > j with j >= 0 (so 0 <= u - 1 < len)."""
        if not isinstance(recv, ast.Name):
            return None
        L = recv.id
        if any(isinstance(x, ast.Name) and x.id == L and isinstance(x.ctx, ast.Store) for x in iter_own_nodes(fn.node)):
            return None         # the sequence itself is re-bound: its length is not a fixed bound
        # `recv` must not be shrunk in place either
        for x in iter_own_nodes(fn.node):
            if isinstance(x, ast.Call) and isinstance(x.func, ast.Attribute) and isinstance(x.func.value, ast.Name) and \
                    x.func.value.id == L and x.func.attr in ('pop', 'remove', 'clear', '__delitem__'):
                return None
            if isinstance(x, ast.Delete):
                return None
        assigns: Dict[str, List[Tuple[str, ast.expr]]] = {}
        for x in iter_own_nodes(fn.node):
            if isinstance(x, ast.Assign) and len(x.targets) == 1:
                t, v = x.targets[0], x.value
                if isinstance(t, ast.Name):
                    assigns.setdefault(t.id, []).append(('=', v))
                elif isinstance(t, (ast.Tuple, ast.List)) and isinstance(v, (ast.Tuple, ast.List)) and len(t.elts) == len(v.elts):
                    for a_, b_ in zip(t.elts, v.elts):
                        if isinstance(a_, ast.Name):
                            assigns.setdefault(a_.id, []).append(('=', b_))
                elif isinstance(t, (ast.Tuple, ast.List)):
                    for a_ in t.elts:
                        if isinstance(a_, ast.Name):
                            assigns.setdefault(a_.id, []).append(('?', v))
            elif isinstance(x, ast.AugAssign) and isinstance(x.target, ast.Name):
                assigns.setdefault(x.target.id, []).append(('+' if isinstance(x.op, ast.Add) else '-' if isinstance(x.op, ast.Sub) else '?', x.value))
            elif isinstance(x, (ast.For, ast.comprehension)) and isinstance(x.target, ast.Name):
                assigns.setdefault(x.target.id, []).append(('?', x.iter))
        params = {a.arg for a in fn.params()}

        def pos_const(e) -> bool:
            return isinstance(e, ast.Constant) and isinstance(e.value, int) and not isinstance(e.value, bool) and e.value > 0

        def is_len(e, depth=0) -> bool:
            if isinstance(e, ast.Call) and getattr(e.func, 'id', '') == 'len' and len(e.args) == 1 and \
                    isinstance(e.args[0], ast.Name) and e.args[0].id == L:
                return True
            if isinstance(e, ast.Name) and depth < 3 and e.id not in params:
                a = assigns.get(e.id, [])
                return len(a) == 1 and a[0][0] == '=' and is_len(a[0][1], depth + 1)
            return False

        def lower0(nm: str) -> bool:     # nm >= 0 always
            a = assigns.get(nm, [])
            return bool(a) and nm not in params and all(
                (k == '=' and isinstance(v, ast.Constant) and isinstance(v.value, int) and v.value >= 0) or (k == '+' and pos_const(v))
                for k, v in a)

        def upper_len(nm: str) -> bool:  # nm <= len(recv) always
            a = assigns.get(nm, [])
            return bool(a) and nm not in params and all((k == '=' and is_len(v)) or (k == '-' and pos_const(v)) for k, v in a)

        facts: List[Tuple[str, str]] = []     # (a, b) meaning a < b
        def add_fact(c: ast.expr, pol: bool):
            if isinstance(c, ast.Compare) and len(c.ops) == 1 and isinstance(c.left, ast.Name) and isinstance(c.comparators[0], (ast.Name, ast.Call)):
                a_, b_, op = c.left, c.comparators[0], c.ops[0]
                bn = b_.id if isinstance(b_, ast.Name) else ('len' if is_len(b_) else None)
                if bn is None:
                    return
                if (isinstance(op, ast.Lt) and pol) or (isinstance(op, ast.GtE) and not pol):
                    facts.append((a_.id, bn))
                if (isinstance(op, ast.Gt) and pol) or (isinstance(op, ast.LtE) and not pol):
                    facts.append((bn, a_.id))
        for c, pol in self.abs.facts_at(node):
            add_fact(c, pol)
        for c, pol in self.flow.path_conditions(node):
            add_fact(c, pol)

        def lt_len(nm: str) -> bool:      # nm < some u with u <= len
            return any(a_ == nm and (b_ == 'len' or upper_len(b_)) for a_, b_ in facts)

        if isinstance(idx, ast.Name) and lower0(idx.id) and lt_len(idx.id):
            return f'0 <= {idx.id} (starts at a constant, only incremented) and a dominating test keeps it below a bound <= len({L})'
        if isinstance(idx, ast.BinOp) and isinstance(idx.op, ast.Sub) and isinstance(idx.left, ast.Name) and \
                isinstance(idx.right, ast.Constant) and idx.right.value == 1:
            u = idx.left.id
            if (upper_len(u) or is_len(idx.left)) and any(b_ == u and (lower0(a_)) for a_, b_ in facts):
                return f'{u} <= len({L}) (starts at the length, only decremented) and a dominating test keeps it above a value >= 0'
        return None

    def _in_annotation(self, n: ast.AST) -> bool:
        p = self.prog.parent(n)
        child = n
        while p is not None:
            if isinstance(p, ast.arg) and p.annotation is child:
                return True
            if isinstance(p, ast.AnnAssign) and p.annotation is child:
                return True
            if isinstance(p, (ast.FunctionDef, ast.AsyncFunctionDef)):
                return p.returns is child
            if isinstance(p, ast.stmt):
                return False
            child = p
            p = self.prog.parent(p)
        return False

    def _invariant_nonempty(self, fn: FuncInfo, recv: ast.expr, node: ast.AST) -> Optional[str]:
        """recv == <X>.<path> where X is an instance of a frozen dataclass whose __post_init__ rejects an empty
        <path>."""
        e = recv
        path: List[str] = []
        while isinstance(e, ast.Attribute):
            path.insert(0, e.attr)
            e = e.value
            t = strip_opt(self.abs.type_at(fn, e, node))
            if t[0] == 'cls':
                inv = self.abs.class_invariants(t[1])
                key = '.'.join(path)
                if key in inv:
                    return (f'class invariant of {t[1].split(".")[-1]}: __post_init__ rejects an empty `{key}` '
                            f'(guard verified on this run)')
        return None

    def _param_path_nonempty(self, fn: FuncInfo, recv: ast.expr) -> Optional[str]:
        """recv == <p>.<path> with p a parameter that the function does not rebind: at every call of the function in the package
        (at least one) the argument handed in for p makes <argument>.<path> non-empty by a class invariant (the value was a field of
        a validated record before it was handed on)."""
        path: List[str] = []
        e = recv
        while isinstance(e, ast.Attribute):
            path.insert(0, e.attr)
            e = e.value
        params = [a.arg for a in fn.params()]
        if not path or not isinstance(e, ast.Name) or e.id not in params or e.id in ('self', 'cls') or e.id in self.cg.env(fn)._assign_sites:
            return None
        callers = [(c_, n_) for c_, n_, k_ in self.cg.callers(fn) if k_ == 'call' and isinstance(n_, ast.Call)]
        if not callers:
            return None
        for cfn, cnode in callers:
            arg = self.prog.bind_call(cfn.module, cnode, fn).get(e.id)
            if arg is None:
                return None
            sub: ast.expr = arg
            for a_ in path:
                sub = ast.copy_location(ast.Attribute(value=sub, attr=a_, ctx=ast.Load()), cnode)
            if not self._invariant_nonempty(cfn, sub, cnode):
                return None
        return (f'at every call of {fn.qualname} ({len(callers)}) the argument for `{e.id}` is a field of a validated record: '
                f'`.{".".join(path)}` is non-empty by class invariant')

    def _param_nonempty_everywhere(self, fn: FuncInfo, pname: str) -> bool:
        key = (fn.fq, pname)
        if key in self._param_nonempty_cache:
            return self._param_nonempty_cache[key]
        self._param_nonempty_cache[key] = False
        params = [a.arg for a in fn.params()]
        if pname not in params:
            return False
        idx = params.index(pname)
        callers = self.cg.callers(fn)
        if not callers or fn.parent is None and not fn.name.startswith('_'):
            # public functions can be called from outside the package
            if fn.parent is None:
                return False
        ok = bool(callers)
        for cfn, cnode, kind in callers:
            if not isinstance(cnode, ast.Call):
                ok = False
                break
            offset = 1 if (fn.cls is not None and not fn.is_static and fn.parent is None and params[0] in ('self', 'cls')) else 0
            j = idx - offset
            arg = cnode.args[j] if 0 <= j < len(cnode.args) else next(
                (k.value for k in cnode.keywords if k.arg == pname), None)
            if arg is None or self.abs.at(cfn, arg, cnode).truthy != YES:
                ok = False
                break
        self._param_nonempty_cache[key] = ok
        return ok

    # -- helpers: attributes -------------------------------------------------------------------------------------------------
    def class_attrs(self, c: ClassInfo) -> Optional[Set[str]]:
        """All attribute names instances of c can have; None when the class is open (unknown bases)."""
        names: Set[str] = set()
        for a in self.prog.ancestors(c):
            if not isinstance(a, ClassInfo):
                base = a.split('.')[-1]
                if base in ('Enum', 'enum.Enum'):
                    names |= {'name', 'value'}
                    continue
                if base in ('Exception', 'TypeError', 'ValueError', 'object', 'BaseException'):
                    names |= {'args', 'with_traceback'}
                    continue
                return None
            names |= set(a.fields) | set(a.methods) | set(a.setters) | set(a.enum_members)
            for stmt in a.node.body:
                if isinstance(stmt, ast.Assign):
                    for t in stmt.targets:
                        if isinstance(t, ast.Name):
                            names.add(t.id)
            for m in list(a.methods.values()) + list(a.setters.values()):
                for x in ast.walk(m.node):
                    if isinstance(x, ast.Attribute) and isinstance(x.value, ast.Name) and x.value.id == 'self' \
                            and isinstance(x.ctx, ast.Store):
                        names.add(x.attr)
        names |= {'__class__', '__dict__', '__doc__', '__str__', '__repr__', '__eq__', '__hash__', '__init__'}
        return names

    def _attribute(self, fn: FuncInfo, n: ast.Attribute, ob):
        A = self.abs
        prog = self.prog
        if prog.resolve_expr_symbol(fn.module, n) is not None:
            return
        if prog.resolve_expr_symbol(fn.module, n.value) is not None and not isinstance(
                prog.resolve_expr_symbol(fn.module, n.value), (ClassInfo,)):
            return      # attribute of a module / external symbol
        if self._in_annotation(n):
            return
        full = A.type_at(fn, n.value, n)
        v = A.at(fn, n.value, n)
        base = strip_opt(full)
        text = f'`{ast.unparse(n)[:70]}`'
        is_method_call = isinstance(prog.parent(n), ast.Call) and prog.parent(n).func is n
        if v.none == YES:
            ob(n, 'optional-deref', 'AttributeError', f'{text}: `{ast.unparse(n.value)}` is None here')
            return
        if full[0] in ('opt',) and v.none != NO:
            why = self._correlation_discharge(fn, n) or self._entry_fact_discharge(fn, n.value, n)
            ob(n, 'optional-deref', 'AttributeError',
               f'{text}: `{ast.unparse(n.value)}` is Optional and no guard establishes that it is set',
               discharged=why)
            return
        if full[0] == 'union' and any(x == NONE for x in full[1]) and v.none != NO:
            ob(n, 'optional-deref', 'AttributeError', f'{text}: `{ast.unparse(n.value)}` may be None')
            return
        members = base[1] if base[0] == 'union' else [base]
        missing = []
        known = 0
        for t in members:
            t = strip_opt(t)
            if t[0] == 'cls' and t[1] in prog.classes:
                attrs = self.class_attrs(prog.classes[t[1]])
                if attrs is None:
                    continue
                known += 1
                if n.attr not in attrs:
                    missing.append(t[1].split('.')[-1])
            elif t[0] == 'type' and t[1] in prog.classes:
                c = prog.classes[t[1]]
                attrs = self.class_attrs(c)
                if attrs is not None:
                    known += 1
                    if n.attr not in attrs and n.attr not in ('__name__', '__qualname__', '__mro__'):
                        missing.append(f'class {c.name}')
            elif t[0] in ('str', 'list', 'dict', 'set', 'int', 'bool', 'tuple', 'float', 'bytes'):
                known += 1
                py = {'str': str, 'list': list, 'dict': dict, 'set': set, 'int': int, 'bool': bool, 'tuple': tuple,
                      'float': float, 'bytes': bytes}[t[0]]
                if not hasattr(py, n.attr):
                    missing.append(t[0])
        if missing:
            ob(n, 'no-attribute', 'AttributeError',
               f'{text}: attribute `{n.attr}` does not exist on {", ".join(sorted(set(missing)))}'
               + (f' (the value may also be one of {len(members) - len(missing)} other types)' if len(members) > len(missing) else ''))
        elif known and (full[0] == 'opt' or base[0] == 'union'):
            ob(n, 'attribute', 'AttributeError', text, discharged='guard / type establishes the attribute exists')

    # -- generic discharges for Optional dereferences ---------------------------------------------------------------------
    def _correlation_discharge(self, fn: FuncInfo, n: ast.Attribute, at: Optional[ast.AST] = None) -> Optional[str]:
        """`X.f.attr` under the fact `X.g == Enum.M`: discharged when every construction site of X's class passes a
        non-None `f` whenever it passes `g == M` (constructor-site correlation, re-verified on every run)."""
        opt = n.value
        if not isinstance(opt, ast.Attribute):
            return None
        X, f = opt.value, opt.attr
        t = strip_opt(self.abs.type_at(fn, X, at if at is not None else n))
        if t[0] != 'cls' or t[1] not in self.prog.classes:
            return None
        cls = self.prog.classes[t[1]]
        if not (cls.is_dataclass and cls.frozen):
            return None
        known: List[Tuple[str, Tuple[str, str], str]] = []
        for cond, pol in self.abs.facts_at(at if at is not None else n):
            if not (pol and isinstance(cond, ast.Compare) and len(cond.ops) == 1 and
                    isinstance(cond.ops[0], (ast.Eq, ast.Is)) and isinstance(cond.left, ast.Attribute)
                    and same_expr(cond.left.value, X)):
                continue
            sym = self.prog.resolve_expr_symbol(fn.module, cond.comparators[0])
            if not (isinstance(sym, tuple) and sym[0] == 'enum_member'):
                continue
            known.append((cond.left.attr, (sym[1].fq, sym[2]), f'this access is under `{ast.unparse(cond)}`'))
        known.extend(self._dispatch_facts(fn, X))
        for g, member, under in known:
            sites = self._ctor_sites(cls)
            if not sites:
                return None
            fields = list(self.prog.class_fields(cls).keys())
            n_match = 0
            for sfn, call in sites:
                args: Dict[str, ast.expr] = {}
                for i, a in enumerate(call.args):
                    if i < len(fields):
                        args[fields[i]] = a
                for k in call.keywords:
                    if k.arg:
                        args[k.arg] = k.value
                if g not in args:
                    return None
                gv = self.abs.at(sfn, args[g], call)
                if gv.enum is None:
                    return None            # key value unknown at this site: no correlation provable
                if gv.enum != member:
                    continue
                n_match += 1
                if f not in args or self.abs.at(sfn, args[f], call).none != NO:
                    return None
            if n_match:
                return (f'constructor-site correlation: all {len(sites)} constructions of {cls.name} pass a non-None '
                        f'`{f}` whenever `{g}` is {member[1]} ({n_match} such site(s), verified on this run), and {under}')
        return None

    def _dispatch_facts(self, fn: FuncInfo, X: ast.expr) -> List[Tuple[str, Tuple[str, str], str]]:
        """Facts `X.g == Enum.M` that hold in a method because of HOW it is reached: every call of it is `r.m(.., a, ..)` with
        `a` bound to the parameter X and the receiver `r = factory(.., a.g, ..)` built, in the same caller, from that very
        object's field g; interpreting the factory for every member of g's enum (E7, the other arguments opaque names) shows
        that the object it returns dispatches `m` to this method for the single member M only."""
        out: List[Tuple[str, Tuple[str, str], str]] = []
        if fn.cls is None or not isinstance(X, ast.Name) or X.id not in [a.arg for a in fn.params()][1:] or fn.is_static:
            return out
        if X.id in self.cg.env(fn)._assign_sites:
            return out
        callers = [(c, nd) for c, nd, _k in self.cg.callers(fn)]
        if not callers or not all(isinstance(nd, ast.Call) and isinstance(nd.func, ast.Attribute) for _c, nd in callers):
            return out
        pnames = [a.arg for a in fn.params()][1:]
        agreed: Optional[Tuple[str, Tuple[str, str], str]] = None
        from .scenario import Interp, EnumV, Atom, Obj, ClassRef, Undecided, Raised
        for cfn, cnode in callers:
            if any(isinstance(a, ast.Starred) for a in cnode.args) or any(k.arg is None for k in cnode.keywords):
                return out
            idx = pnames.index(X.id)
            a = cnode.args[idx] if idx < len(cnode.args) else next((k.value for k in cnode.keywords if k.arg == X.id), None)
            r = cnode.func.value
            env = self.cg.env(cfn)
            if not isinstance(a, ast.Name) or not isinstance(r, ast.Name):
                return out
            cparams = [p.arg for p in cfn.params()]
            if not ((a.id in cparams and a.id not in env._assign_sites) or env.single_def(a.id) is not None):
                return out
            made = env.single_def(r.id)
            if not isinstance(made, ast.Call) or any(isinstance(x, ast.Starred) for x in made.args) or \
                    any(k.arg is None for k in made.keywords):
                return out
            factories = [c for c in env.resolve_call(made) if isinstance(c, FuncInfo)]
            if len(factories) != 1 or len(env.resolve_call(made)) != 1:
                return out
            factory = factories[0]
            key_slots = [(i, x) for i, x in enumerate(list(made.args) + [k.value for k in made.keywords])
                         if isinstance(x, ast.Attribute) and same_expr(x.value, a)]
            if len(key_slots) != 1:
                return out
            slot, key = key_slots[0]
            kt = strip_opt(self.abs.type_at(cfn, key, made))
            en = self.prog.classes.get(kt[1]) if kt[0] == 'cls' else None
            if en is None or not en.is_enum:
                return out
            self_val = None
            if factory.cls is not None and not factory.is_static:
                named = self.prog.resolve_expr_symbol(cfn.module, made.func.value) if isinstance(made.func, ast.Attribute) else None
                if not (factory.is_classmethod and isinstance(named, ClassInfo)):
                    return out
                self_val = ClassRef(named)
            mine: List[str] = []
            for member in en.enum_members:
                it = Interp(self.prog)
                args = [EnumV(en, member) if i == slot else Atom(f'arg{i}') for i in range(len(made.args))]
                kwargs = {k.arg: (EnumV(en, member) if len(made.args) + j == slot else Atom(f'kw_{k.arg}'))
                          for j, k in enumerate(made.keywords)}
                try:
                    res = it.call_function(factory, args, kwargs, self_val=self_val)
                except Raised:
                    continue            # no object, no dispatch
                except Undecided:
                    return out
                if not isinstance(res, Obj):
                    return out
                if self.prog.lookup_method(res.cls, fn.name) is fn:
                    mine.append(member)
            if len(mine) != 1:
                return out
            fact = (key.attr, (en.fq, mine[0]),
                    f'this method is only reached through `{ast.unparse(made)[:80]}` in {cfn.qualname}, which hands out a '
                    f'{fn.cls.name} for {en.name}.{mine[0]} alone (the factory interpreted for all {len(en.enum_members)} members), '
                    f'with `{X.id}` the object whose `{key.attr}` selected it')
            if agreed is not None and agreed[:2] != fact[:2]:
                return out
            agreed = fact
        if agreed is not None:
            out.append(agreed)
        return out

    def _field_nonempty_everywhere(self, fn: FuncInfo, recv: ast.expr, node: ast.AST) -> Optional[str]:
        """recv == <obj>.<field> with obj an instance of a frozen dataclass of the package every construction of which - all
        of them at module level or in functions of the package - passes a non-empty literal for that field."""
        if not isinstance(recv, ast.Attribute):
            return None
        t = strip_opt(self.abs.type_at(fn, recv.value, node))
        cls = self.prog.classes.get(t[1]) if t[0] == 'cls' else None
        if cls is None or not (cls.is_dataclass and cls.frozen) or recv.attr not in self.prog.class_fields(cls):
            return None
        sites: List[Tuple[Module, ast.Call]] = [(f.module, c) for f, c in self._ctor_sites(cls)]
        for m in self.prog.modules.values():
            for st in m.tree.body:
                if isinstance(st, (ast.Assign, ast.AnnAssign)) and st.value is not None:
                    for c in ast.walk(st.value):
                        if isinstance(c, ast.Call) and self.prog.resolve_expr_symbol(m, c.func) is cls:
                            sites.append((m, c))
        if not sites:
            return None
        for m, c in sites:
            v = self.prog.bind_call(m, c).get(recv.attr)
            if isinstance(v, ast.Constant) and isinstance(v.value, str) and v.value:
                continue
            if isinstance(v, (ast.List, ast.Tuple)) and v.elts:
                continue
            return None
        return f'every construction of {cls.name} ({len(sites)} sites) passes a non-empty literal for `{recv.attr}`'

    def _ctor_sites(self, cls: ClassInfo) -> List[Tuple[FuncInfo, ast.Call]]:
        out = []
        for f in self.prog.all_functions():
            env = self.cg.env(f)
            for x in iter_own_nodes(f.node):
                if isinstance(x, ast.Call):
                    sym = self.prog.resolve_expr_symbol(f.module, x.func)
                    if sym is cls:
                        out.append((f, x))
        return out

    def normalise(self, fn: FuncInfo, e: ast.expr, depth: int = 0) -> ast.expr:
        """Replace local single-definition aliases (dzn = port.dzn_port_itf) by their definitions."""
        if depth > 6:
            return e
        if isinstance(e, ast.Name):
            d = self.abs._single_def(fn, e.id)
            if d is not None and isinstance(d, (ast.Attribute, ast.Name)):
                return self.normalise(fn, d, depth + 1)
            if d is None and fn.parent is not None and e.id not in self.cg.env(fn)._assign_sites and \
                    e.id not in [a.arg for a in fn.params()]:
                # a variable of the enclosing function read by a local helper (closure): its single definition there
                d = self.abs._single_def(fn.parent, e.id)
                if d is not None and isinstance(d, (ast.Attribute, ast.Name)):
                    return self.normalise(fn.parent, d, depth + 1)
            return e
        if isinstance(e, ast.Attribute):
            return ast.Attribute(value=self.normalise(fn, e.value, depth + 1), attr=e.attr, ctx=ast.Load())
        return e

    def _entry_fact_discharge(self, fn: FuncInfo, opt_expr: ast.expr, node: ast.AST, depth: int = 0) -> Optional[str]:
        """`P.a.b` (P a parameter) is non-None because every call site inside the package passes an argument E for
        which `E.a.b` is established truthy/non-None by the caller's path facts (or, recursively, by the caller's own
        call sites)."""
        if depth > 4:
            return None
        e = self.normalise(fn, opt_expr)
        path: List[str] = []
        base = e
        while isinstance(base, ast.Attribute):
            path.insert(0, base.attr)
            base = base.value
        if not isinstance(base, ast.Name) or not path:
            return None
        # properties along the path are expanded by the caller-side evaluation as well (same attribute names)
        owner: Optional[FuncInfo] = fn
        while owner is not None and base.id not in [a.arg for a in owner.params()]:
            owner = owner.parent
        if owner is None or base.id in self.cg.env(owner)._assign_sites:
            return None
        pname = base.id
        callers = [(c, nd, k) for c, nd, k in self.cg.callers(owner) if isinstance(nd, ast.Call)]
        if not callers:
            return None
        params = [a.arg for a in owner.params()]
        offset = 1 if (owner.cls is not None and not owner.is_static and owner.parent is None and params
                       and params[0] in ('self', 'cls')) else 0
        idx = params.index(pname)
        notes = []
        for cfn, cnode, _k in callers:
            j = idx - (offset if _bound_call(cnode) else 0)      # (a plain call passes self explicitly)
            arg = cnode.args[j] if 0 <= j < len(cnode.args) else next(
                (k.value for k in cnode.keywords if k.arg == pname), None)
            if arg is None:
                return None
            full: ast.expr = arg
            for a in path:
                full = ast.Attribute(value=full, attr=a, ctx=ast.Load())
            ast.copy_location(full, cnode)
            ast.fix_missing_locations(full)
            want = ast.dump(self.normalise(cfn, full))
            ok = False
            for cond, pol in self.abs.facts_at(cnode):
                if pol and ast.dump(self.normalise(cfn, cond)) == want:
                    ok = True
                if isinstance(cond, ast.Compare) and len(cond.ops) == 1 and \
                        isinstance(cond.comparators[0], ast.Constant) and cond.comparators[0].value is None and \
                        ast.dump(self.normalise(cfn, cond.left)) == want:
                    if isinstance(cond.ops[0], (ast.IsNot, ast.NotEq)) == pol:
                        ok = True
            if not ok:
                sub = self._entry_fact_discharge(cfn, full, cnode, depth + 1)
                if sub is None:
                    return None
                notes.append(sub)
            else:
                notes.append(f'{cfn.qualname}:{cnode.lineno} guards `{ast.unparse(self.normalise(cfn, full))}`')
        return (f'every call site of {owner.qualname} in the package establishes `{ast.unparse(e)}`: '
                + '; '.join(notes[:3]))

    # -- helpers: calls ----------------------------------------------------------------------------------------------------------------
    def _call(self, fn: FuncInfo, n: ast.Call, ob):
        A, prog, env = self.abs, self.prog, self.cg.env(fn)
        f = n.func
        # string.Template(<constant>).substitute(asdict(<record>)): fails on a placeholder that the record has no field for
        if isinstance(f, ast.Attribute) and f.attr in ('substitute', 'safe_substitute') and isinstance(f.value, ast.Call) and \
                isinstance(f.value.func, (ast.Name, ast.Attribute)):
            tsym = prog.resolve_expr_symbol(fn.module, f.value.func)
            if isinstance(tsym, tuple) and tsym[0] == 'ext' and tsym[1] == 'string.Template' and len(f.value.args) == 1 and \
                    isinstance(f.value.args[0], ast.Constant) and isinstance(f.value.args[0].value, str):
                import string as _string
                text = f.value.args[0].value
                names, invalid = set(), False
                for m_ in _string.Template.pattern.finditer(text):
                    if m_.group('invalid') is not None:
                        invalid = True
                    nm_ = m_.group('named') or m_.group('braced')
                    if nm_:
                        names.add(nm_)
                have = None
                if len(n.args) == 1 and not n.keywords and isinstance(n.args[0], ast.Call) and len(n.args[0].args) == 1 and \
                        isinstance(n.args[0].func, (ast.Name, ast.Attribute)):
                    asym = prog.resolve_expr_symbol(fn.module, n.args[0].func)
                    t_ = strip_opt(A.type_at(fn, n.args[0].args[0], n))
                    if t_[0] != 'cls':
                        t_ = strip_opt(A.at(fn, n.args[0].args[0], n).type)
                    if isinstance(asym, tuple) and asym[0] == 'ext' and asym[1] == 'dataclasses.asdict' and t_[0] == 'cls' and t_[1] in prog.classes:
                        have = set(prog.class_fields(prog.classes[t_[1]]))
                elif not n.args and n.keywords and all(k.arg for k in n.keywords):
                    have = {k.arg for k in n.keywords}
                if f.attr == 'safe_substitute' or (have is not None and not invalid and names <= have):
                    ob(n, 'template', 'KeyError', f'`{ast.unparse(f)[:40]}...`',
                       discharged=f'every placeholder of the constant template ({len(names)}) is a field of the record / a keyword given')
                else:
                    ob(n, 'template', 'KeyError', f'string.Template.substitute: placeholders {sorted(names - (have or set()))[:4]} may have no value')
                return
        callees = env.resolve_call(n)
        # builtins with failure modes
        if isinstance(f, ast.Name) and prog.resolve_name(fn.module, f.id) is None and f.id not in env.vars \
                and f.id not in env._assign_sites:
            if f.id == 'next' and len(n.args) < 2:
                ob(n, 'next', 'StopIteration', f'`{ast.unparse(n)[:60]}` without a default')
            elif f.id in ('int', 'float') and n.args and not isinstance(n.args[0], ast.Constant):
                t = strip_opt(A.type_at(fn, n.args[0], n))
                if t[0] not in ('int', 'bool', 'float'):
                    ob(n, 'conversion', 'ValueError', f'`{ast.unparse(n)[:60]}` may fail on non-numeric text')
            elif f.id in ('min', 'max') and len(n.args) == 1 and not any(k.arg == 'default' for k in n.keywords):
                if A.at(fn, n.args[0], n).truthy != YES:
                    ob(n, 'minmax', 'ValueError', f'`{ast.unparse(n)[:60]}` of a possibly empty sequence')
            elif f.id == 'getattr' and len(n.args) == 2:
                why = self._getattr_from_table(fn, n)
                if why:
                    ob(n, 'getattr', 'AttributeError', f'`{ast.unparse(n)[:60]}`', discharged=why)
                else:
                    ob(n, 'getattr', 'AttributeError', f'`{ast.unparse(n)[:60]}` without a default')
            elif f.id == 'len' and n.args:
                v = A.at(fn, n.args[0], n)
                if v.none == YES or (A.type_at(fn, n.args[0], n)[0] in ('opt', 'none') and v.none != NO):
                    ob(n, 'len-optional', 'TypeError', f'len() of possibly-None `{ast.unparse(n.args[0])}`')
            elif f.id == 'open':
                ob(n, 'open', 'OSError', 'open() may fail')
        if isinstance(f, ast.Attribute):
            rt = strip_opt(A.type_at(fn, f.value, n))
            is_builtin = any(isinstance(c, tuple) and c[0] == 'builtin' for c in callees)
            if is_builtin or rt[0] in ('list', 'set', 'dict', 'any'):
                if f.attr == 'pop' and rt[0] in ('list', 'set', 'any', 'dict'):
                    if rt[0] == 'dict' and len(n.args) >= 2:
                        pass
                    elif A.at(fn, f.value, n).truthy == YES and (rt[0] != 'dict'):
                        ob(n, 'pop', 'KeyError' if rt[0] == 'set' else 'IndexError', f'`{ast.unparse(n)[:60]}`',
                           discharged='non-emptiness test dominates the pop')
                    else:
                        ob(n, 'pop', 'KeyError' if rt[0] in ('set', 'dict') else 'IndexError',
                           f'`{ast.unparse(n)[:60]}` on a possibly empty container')
                elif f.attr in ('index', 'remove') and rt[0] in ('list', 'any', 'str', 'set'):
                    ob(n, f.attr, 'KeyError' if rt[0] == 'set' else 'ValueError',
                       f'`{ast.unparse(n)[:60]}` fails when the item is absent')
                elif f.attr == 'join' and n.args:
                    at = strip_opt(A.type_at(fn, n.args[0], n))
                    et = TypeEnv.elem_type(at)
                    if et[0] in ('int', 'cls', 'none', 'list', 'opt') or (et[0] == 'union' and any(
                            strip_opt(x)[0] != 'str' for x in et[1])):
                        ob(n, 'join-nonstr', 'TypeError', f'`{ast.unparse(n)[:60]}` joins items that are not str')
                    av = A.at(fn, n.args[0], n)
                    if av.none == YES or (A.type_at(fn, n.args[0], n)[0] == 'opt' and av.none != NO):
                        ob(n, 'iter-optional', 'TypeError', f'join over possibly-None `{ast.unparse(n.args[0])[:40]}`')
        # unresolved calls
        for c in callees:
            if isinstance(c, tuple) and c[0] == 'unknown':
                self.unresolved_calls.append((fn, n, c[1]))
        # arguments of a memoising function are hashed
        for c in callees:
            if isinstance(c, FuncInfo) and self._memoised(c):
                for a_ in list(n.args) + [k.value for k in n.keywords if k.arg is not None]:
                    if isinstance(a_, ast.Starred):
                        continue
                    why_ = self._unhashable(A.type_at(fn, a_, n), 0)
                    if why_ and A.at(fn, a_, n).none != YES:
                        ob(n, 'unhashable', 'TypeError',
                           f'`{ast.unparse(a_)[:40]}` is handed to {c.qualname}, which memoises its results (functools cache): the argument '
                           f'is hashed, and {why_}')
        # arity of resolved package calls
        fis = [c for c in callees if isinstance(c, FuncInfo)]
        ctor = next((c[1] for c in callees if isinstance(c, tuple) and c[0] == 'ctor'), None)
        byname = any(isinstance(c, tuple) and c[0] == 'byname' for c in callees)
        if byname:
            return
        if ctor is not None:
            self._arity_ctor(fn, n, ctor, ob)
        elif len(fis) == 1:
            self._arity(fn, n, fis[0], ob)

    @staticmethod
    def _memoised(f: FuncInfo) -> bool:
        for d in f.node.decorator_list:
            d = d.func if isinstance(d, ast.Call) else d
            nm = d.id if isinstance(d, ast.Name) else d.attr if isinstance(d, ast.Attribute) else ''
            if nm in ('lru_cache', 'cache'):
                return True
        return False

    def _unhashable(self, t: tuple, depth: int) -> Optional[str]:
        """Why a value of static type t cannot be hashed (None: it can, or it is not known)."""
        t = strip_opt(t)
        if t[0] in ('list', 'dict', 'set'):
            return f'a {t[0]} is not hashable'
        if t[0] != 'cls' or t[1] not in self.prog.classes or depth > 3:
            return None
        c = self.prog.classes[t[1]]
        if c.is_enum:
            return None
        for a in self.prog.ancestors(c):
            if isinstance(a, ClassInfo):
                if '__hash__' in a.methods:
                    return None
                if any(isinstance(st, ast.Assign) and any(isinstance(x, ast.Name) and x.id == '__hash__' for x in st.targets)
                       for st in a.node.body):
                    return f'{c.name} sets __hash__ = None'
        if c.is_dataclass:
            kw = {}
            for d in c.node.decorator_list:
                if isinstance(d, ast.Call):
                    kw.update({k.arg: k.value.value for k in d.keywords if isinstance(k.value, ast.Constant)})
            if kw.get('eq') is False or kw.get('unsafe_hash') is True and not c.frozen:
                return None if kw.get('eq') is False else None
            if not c.frozen:
                return f'{c.name} is a dataclass with eq and without frozen: it has no __hash__'
        record = c.is_dataclass or any(str(b).split('.')[-1] == 'NamedTuple' for b in c.bases)
        if record:
            for nm, (ann, _d, owner) in self.prog.class_fields(c).items():
                ft = self.prog.ann_to_type(owner.module, ann, owner) if ann is not None else ANY
                why = self._unhashable(ft, depth + 1)
                if why:
                    return f'the hash of a {c.name} is computed from its fields and its field `{nm}` cannot be hashed ({why})'
            return None
        if any('__eq__' in a.methods for a in self.prog.ancestors(c) if isinstance(a, ClassInfo)):
            return f'{c.name} defines __eq__ without __hash__'
        return None

    def _arity(self, fn: FuncInfo, n: ast.Call, callee: FuncInfo, ob, skip_self: Optional[bool] = None):
        if any(isinstance(a, ast.Starred) for a in n.args) or any(k.arg is None for k in n.keywords):
            return
        a = callee.node.args
        pos = list(a.posonlyargs) + list(a.args)
        bound_self = callee.cls is not None and not callee.is_static and callee.parent is None and pos and \
            pos[0].arg in ('self', 'cls')
        if skip_self is None:
            # Class.method(obj, ...) passes self explicitly
            explicit_self = isinstance(n.func, ast.Attribute) and isinstance(
                self.prog.resolve_expr_symbol(fn.module, n.func.value), ClassInfo)
            skip_self = bound_self and (not explicit_self or callee.is_classmethod)
        if callee.is_property:
            return
        params = pos[1:] if skip_self else pos
        n_defaults = len(a.defaults)
        required = [p.arg for p in params[:len(params) - n_defaults]] if n_defaults <= len(params) else []
        names = [p.arg for p in params]
        kwonly = [p.arg for p in a.kwonlyargs]
        kwonly_required = [p.arg for p, d in zip(a.kwonlyargs, a.kw_defaults) if d is None]
        problems = []
        if len(n.args) > len(params) and a.vararg is None:
            problems.append(f'{len(n.args)} positional arguments for {len(params)} parameters')
        given = set(names[:len(n.args)])
        for k in n.keywords:
            if k.arg not in names and k.arg not in kwonly and a.kwarg is None:
                problems.append(f'unexpected keyword `{k.arg}`')
            elif k.arg in given:
                problems.append(f'`{k.arg}` given twice')
            given.add(k.arg)
        for r in required + kwonly_required:
            if r not in given:
                problems.append(f'missing argument `{r}`')
        if problems:
            ob(n, 'arity', 'TypeError', f'call of {callee.qualname}: ' + '; '.join(problems))

    def _arity_ctor(self, fn: FuncInfo, n: ast.Call, cls: ClassInfo, ob):
        init = self.prog.lookup_method(cls, '__init__')
        if init is not None:
            self._arity(fn, n, init, ob, skip_self=True)
            return
        if not cls.is_dataclass:
            return
        if any(isinstance(a, ast.Starred) for a in n.args) or any(k.arg is None for k in n.keywords):
            return
        fields = self.prog.class_fields(cls)
        names = list(fields.keys())
        problems = []
        if len(n.args) > len(names):
            problems.append(f'{len(n.args)} positional arguments for {len(names)} fields')
        given = set(names[:len(n.args)])
        for k in n.keywords:
            if k.arg not in names:
                problems.append(f'unexpected keyword `{k.arg}`')
            elif k.arg in given:
                problems.append(f'`{k.arg}` given twice')
            given.add(k.arg)
        for nm, (_ann, dflt, _o) in fields.items():
            if dflt is None and nm not in given:
                problems.append(f'missing field `{nm}`')
        if problems:
            ob(n, 'arity', 'TypeError', f'construction of {cls.name}: ' + '; '.join(problems))

    # -- conditional summaries: atoms -----------------------------------------------------------------------------------
    def _place(self, fn: FuncInfo, e: ast.expr) -> Optional[tuple]:
        params = {a.arg for a in fn.params()}
        reassigned = set(self.cg.env(fn)._assign_sites)
        if isinstance(e, ast.Name) and e.id in params and e.id not in reassigned and e.id not in ('self', 'cls'):
            return ('param', e.id)
        if isinstance(e, ast.Attribute) and isinstance(e.value, ast.Name) and e.value.id == 'self' \
                and fn.cls is not None and 'self' in params:
            return ('self', e.attr)
        return None

    def _atom(self, fn: FuncInfo, cond: ast.expr, pol: bool) -> Optional[tuple]:
        if isinstance(cond, ast.UnaryOp) and isinstance(cond.op, ast.Not):
            return self._atom(fn, cond.operand, not pol)
        pl = self._place(fn, cond)
        if pl is not None:
            return ('truthy', pl, pol)
        tk = self._typekey_lookup(fn, cond)
        if tk is not None:
            return ('typekey', tk[0], tk[1], pol)         # the lookup by type(place) found an entry
        if isinstance(cond, ast.Compare) and len(cond.ops) == 1:
            op, lhs, rhs = cond.ops[0], cond.left, cond.comparators[0]
            if isinstance(rhs, ast.Constant) and rhs.value is None and isinstance(op, (ast.Is, ast.IsNot, ast.Eq, ast.NotEq)):
                tk = self._typekey_lookup(fn, lhs)
                if tk is not None:
                    return ('typekey', tk[0], tk[1], (not pol) if isinstance(op, (ast.Is, ast.Eq)) else pol)
            if self._place(fn, lhs) is None and self._place(fn, rhs) is not None and \
                    isinstance(op, (ast.Eq, ast.NotEq, ast.Is, ast.IsNot)):
                lhs, rhs = rhs, lhs           # symmetric operators: `CONST == x` is `x == CONST`
            pl = self._place(fn, lhs)
            if pl is not None and isinstance(rhs, ast.Constant) and rhs.value is None and \
                    isinstance(op, (ast.Is, ast.IsNot, ast.Eq, ast.NotEq)):
                return ('none', pl, pol if isinstance(op, (ast.Is, ast.Eq)) else not pol)
            if pl is not None and isinstance(op, (ast.Lt, ast.LtE, ast.Gt, ast.GtE, ast.Eq, ast.NotEq)):
                # a number compared with a constant: decided where the argument is a constant (a literal, the default value)
                cv = rhs.operand.value if (isinstance(rhs, ast.UnaryOp) and isinstance(rhs.op, ast.USub) and isinstance(rhs.operand, ast.Constant)) \
                    else rhs.value if isinstance(rhs, ast.Constant) else None
                if isinstance(cv, (int, float)) and not isinstance(cv, bool):
                    if isinstance(rhs, ast.UnaryOp):
                        cv = -cv
                    return ('cmp', pl, (type(op).__name__, cv), pol)
            if pl is not None and isinstance(op, (ast.Eq, ast.NotEq, ast.Is, ast.IsNot)):
                sym = self.prog.resolve_expr_symbol(fn.module, rhs)
                if isinstance(sym, tuple) and sym[0] == 'enum_member':
                    return ('enumeq', pl, (sym[1].fq, sym[2]), pol if isinstance(op, (ast.Eq, ast.Is)) else not pol)
        if isinstance(cond, ast.Call) and isinstance(cond.func, ast.Name):
            nm = cond.func.id
            if nm == 'isinstance' and len(cond.args) == 2:
                pl = self._place(fn, cond.args[0])
                if pl is None:
                    return None
                tp = self._place(fn, cond.args[1])
                if tp is not None and tp[0] == 'param':
                    return ('isinstance', pl, tp, pol)
                tt = self.abs.resolve_type_expr(fn, cond.args[1])
                if tt is None:
                    return None
                return ('isinstance', pl, tt, pol)
            if nm in ('is_strlist_instance', 'is_strset_instance') and cond.args:
                pl = self._place(fn, cond.args[0])
                if pl is not None:
                    return ('pred', nm, pl, pol)
            if nm == 'hasattr' and len(cond.args) == 2 and isinstance(cond.args[1], ast.Constant) \
                    and cond.args[1].value == '__iter__':
                pl = self._place(fn, cond.args[0])
                if pl is not None:
                    return ('pred', 'hasattr-iter', pl, pol)
        if isinstance(cond, ast.BoolOp):
            # (a or b) holds / (a and b) does not hold  -> disjunction of atoms
            if (isinstance(cond.op, ast.Or) and pol) or (isinstance(cond.op, ast.And) and not pol):
                inner = [self._atom(fn, v, pol) for v in cond.values]
                if all(a is not None for a in inner):
                    return ('or', inner)
        return None

    def _typekey_lookup(self, fn: FuncInfo, e: ast.expr) -> Optional[Tuple[tuple, Tuple[str, ...]]]:
        """`e` is (a write-once local bound to) `TABLE.get(type(p))` with p a parameter place and TABLE a module-level dict
        display (possibly behind MappingProxyType) keyed by classes of the package, all values non-None constants, that
        nothing in the package writes: (place, the key classes).  The lookup yields None exactly when type(p) is no key."""
        prog = self.prog
        env = self.cg.env(fn)
        if isinstance(e, ast.Name):
            d = env.single_def(e.id)
            if d is None:
                return None
            e = d
        if not (isinstance(e, ast.Call) and isinstance(e.func, ast.Attribute) and e.func.attr == 'get' and len(e.args) == 1
                and not e.keywords and isinstance(e.func.value, ast.Name)):
            return None
        k = e.args[0]
        subj = None
        if isinstance(k, ast.Call) and isinstance(k.func, ast.Name) and k.func.id == 'type' and len(k.args) == 1 and not k.keywords \
                and prog.resolve_name(fn.module, 'type') is None and 'type' not in env.vars:
            subj = k.args[0]
        elif isinstance(k, ast.Attribute) and k.attr == '__class__':
            subj = k.value
        pl = self._place(fn, subj) if subj is not None else None
        if pl is None:
            return None
        tname = e.func.value.id
        if tname in env.vars or env._assign_sites.get(tname):
            return None
        sym = prog.resolve_name(fn.module, tname)
        if not (isinstance(sym, tuple) and sym[0] == 'const'):
            return None
        node, mod = sym[1], sym[2]
        stmt = prog.parent(node)
        from .rules.shared import readonly_table
        if not isinstance(stmt, (ast.Assign, ast.AnnAssign)) or readonly_table(prog, mod, stmt) is None:
            return None
        if isinstance(node, ast.Call) and len(node.args) == 1:
            node = node.args[0]
        if not isinstance(node, ast.Dict) or not node.keys or any(x is None for x in node.keys):
            return None
        keys = []
        for kx, vx in zip(node.keys, node.values):
            c = prog.resolve_expr_symbol(mod, kx) if isinstance(kx, (ast.Name, ast.Attribute)) else None
            if not isinstance(c, ClassInfo) or (isinstance(vx, ast.Constant) and vx.value is None):
                return None
            if not (isinstance(vx, ast.Constant) or isinstance(prog.resolve_expr_symbol(mod, vx) if isinstance(vx, (ast.Name, ast.Attribute)) else None,
                                                            (FuncInfo, ClassInfo, tuple))):
                return None
            keys.append(c.fq)
        return pl, tuple(keys)

    def _atoms(self, fn: FuncInfo, facts) -> Optional[List[tuple]]:
        out = []
        for cond, pol in facts:
            a = self._atom(fn, cond, pol)
            if a is None:
                return None
            out.append(a)
        return out or None

    def _eval_atom(self, atom: tuple, binding: Dict[tuple, Tuple[FuncInfo, Optional[ast.expr], Optional[ast.AST]]],
                   not_none: Set[tuple]) -> str:
        """YES: the atom certainly holds, NO: certainly not, MAYBE."""
        A = self.abs
        if atom[0] == 'or':
            rs = [self._eval_atom(a, binding, not_none) for a in atom[1]]
            if YES in rs:
                return YES
            return NO if all(r == NO for r in rs) else MAYBE
        kind = atom[0]
        place = atom[2] if kind == 'pred' else atom[1]
        pol = atom[-1]
        if place not in binding:
            return MAYBE
        cfn, arg, cnode = binding[place]
        if arg is None:
            return MAYBE
        consts = self._iter_var_constants(cfn, arg) if isinstance(arg, ast.Name) else None
        if consts:
            # the argument is the variable of a loop / comprehension over constants of the package: the atom, value by value
            def on(c) -> Optional[str]:
                if kind == 'none':
                    return YES if c is None else NO
                if kind == 'truthy':
                    return YES if c else NO
                if kind == 'isinstance' and atom[2] and atom[2][0] in ('str', 'int', 'bool', 'float'):
                    py = {'str': str, 'int': int, 'bool': bool, 'float': float}[atom[2][0]]
                    return YES if isinstance(c, py) else NO
                return None
            truths = {on(c) for c in consts}
            if len(truths) == 1 and None not in truths:
                t_ = truths.pop()
                return YES if (t_ == YES) == pol else NO
        if kind == 'cmp':
            av = arg.operand.value if (isinstance(arg, ast.UnaryOp) and isinstance(arg.op, ast.USub) and isinstance(arg.operand, ast.Constant)) \
                else arg.value if isinstance(arg, ast.Constant) else None
            if isinstance(av, (int, float)) and not isinstance(av, bool):
                if isinstance(arg, ast.UnaryOp):
                    av = -av
                opn, cv = atom[2]
                truth = {'Lt': av < cv, 'LtE': av <= cv, 'Gt': av > cv, 'GtE': av >= cv, 'Eq': av == cv, 'NotEq': av != cv}[opn]
                return YES if truth == pol else NO
            return MAYBE
        v = A.at(cfn, arg, cnode)
        if kind == 'none' and v.none == MAYBE and isinstance(arg, ast.Attribute) and cnode is not None:
            # `X.f` handed on under `X.g == Enum.M`: constructor-site correlation (as for a dereference of X.f)
            probe = ast.copy_location(ast.Attribute(value=arg, attr='_', ctx=ast.Load()), arg)
            if self._correlation_discharge(cfn, probe, at=cnode):
                v.none = NO
        if place in not_none and v.none != YES:
            v.none = NO
            v.type = strip_opt(v.type)

        def res(truth: str) -> str:
            if truth == MAYBE:
                return MAYBE
            return YES if (truth == YES) == pol else NO

        if kind == 'none':
            return res(v.none)
        if kind == 'truthy':
            return res(v.truthy)
        if kind == 'isinstance':
            tt = atom[2]
            if tt and tt[0] == 'param':
                tb = binding.get(tt)
                if tb is None or tb[1] is None:
                    return MAYBE
                tt = A.resolve_type_expr(tb[0], tb[1])
                if tt is None:
                    return MAYBE
            if v.none == YES:
                return res(NO)
            sub = A.subtype(v.type, tt)
            if v.none == NO:
                return res(YES if sub is True else NO if sub is False else MAYBE)
            return res(NO if sub is False else MAYBE)
        if kind == 'pred':
            name = atom[1]
            t = strip_opt(v.type)
            if v.none != NO:
                return MAYBE
            if name in ('is_strlist_instance', 'is_strset_instance'):
                want = 'list' if name == 'is_strlist_instance' else 'set'
                if t[0] == want and t[1] == ('str',):
                    return res(YES)
                if t[0] in ('any', 'union') or t[0] == want:
                    return MAYBE
                return res(NO)
            if isinstance(name, tuple) and name[0] == 'elements-isinstance':
                if t[0] in ('list', 'set'):
                    et = strip_opt(t[1])
                    if et == ANY or et[0] == 'any':
                        return MAYBE
                    sub = A.subtype(et, name[1])
                    return res(YES if sub is True else NO if sub is False else MAYBE)
                return MAYBE
            if name == 'hasattr-iter':
                if t[0] in ('list', 'set', 'dict', 'tuple', 'str'):
                    return res(YES)
                if t[0] in ('int', 'bool', 'float'):
                    return res(NO)
                return MAYBE
        if kind == 'enumeq':
            if v.enum is not None:
                return res(YES if v.enum == atom[2] else NO)
            return MAYBE
        if kind == 'typekey':
            # type(value) is a key: every class the value can be an instance of - the classes of its static type and whatever
            # the package derives from them - is listed
            if v.none == YES:
                return res(NO)
            t = strip_opt(v.type)
            members = list(t[1]) if t[0] == 'union' else [t]
            if not members or any(strip_opt(m)[0] != 'cls' or strip_opt(m)[1] not in self.prog.classes for m in members):
                return MAYBE
            runtime = set()
            for m in members:
                fq = strip_opt(m)[1]
                runtime.add(fq)
                runtime |= {c.fq for c in self.prog.classes.values() if any(isinstance(a, ClassInfo) and a.fq == fq for a in self.prog.ancestors(c))}
            if runtime <= set(atom[2]):
                return res(YES) if v.none == NO else MAYBE
            if not (runtime & set(atom[2])):
                return res(NO)
            return MAYBE
        return MAYBE

    def _iter_var_constants(self, fn: FuncInfo, name: ast.Name) -> Optional[list]:
        """`name` is bound only as the target of one loop / comprehension of `fn` whose iterable is, at every call that reaches
        it, a display of constants of the package (literals, module-level constants; handed down through parameters, from all
        call sites, defaults included): the Python values.  None when not known."""
        prog = self.prog
        env = self.cg.env(fn)
        if name.id in [a.arg for a in fn.params()]:
            return None
        binders = []
        for x in iter_own_nodes(fn.node):
            if isinstance(x, ast.comprehension) and isinstance(x.target, ast.Name) and x.target.id == name.id:
                binders.append(x.iter)
            elif isinstance(x, ast.For) and isinstance(x.target, ast.Name) and x.target.id == name.id:
                binders.append(x.iter)
            elif isinstance(x, ast.Name) and x.id == name.id and isinstance(x.ctx, ast.Store) and \
                    not isinstance(prog.parent(x), (ast.comprehension, ast.For)):
                return None
        if len(binders) != 1:
            return None

        def scalar(mod: Module, e: ast.expr, depth: int):
            if isinstance(e, ast.Constant):
                return (e.value,)
            if depth < 5 and isinstance(e, (ast.Name, ast.Attribute)):
                sym = prog.resolve_expr_symbol(mod, e)
                if isinstance(sym, tuple) and sym[0] == 'const':
                    return scalar(sym[2], sym[1], depth + 1)
            return None

        def elements(f: Optional[FuncInfo], mod: Module, e: ast.expr, depth: int) -> Optional[list]:
            if depth > 6:
                return None
            if isinstance(e, (ast.Tuple, ast.List)):
                out = []
                for x in e.elts:
                    v = scalar(mod, x, 0)
                    if v is None:
                        return None
                    out.append(v[0])
                return out
            if isinstance(e, ast.Call) and isinstance(e.func, ast.Name) and e.func.id in ('list', 'tuple', 'sorted', 'reversed') and \
                    len(e.args) == 1 and not e.keywords and prog.resolve_name(mod, e.func.id) is None:
                return elements(f, mod, e.args[0], depth + 1)
            if isinstance(e, ast.Name) and f is not None and e.id in [a.arg for a in f.params()]:
                if e.id in self.cg.env(f)._assign_sites:
                    return None
                callers = self.cg.callers(f)
                if not callers:
                    return None
                a_ = f.node.args
                pos_ = list(a_.posonlyargs) + list(a_.args)
                dflts = dict(zip([p_.arg for p_ in pos_][len(pos_) - len(a_.defaults):], a_.defaults))
                dflts.update({p_.arg: d_ for p_, d_ in zip(a_.kwonlyargs, a_.kw_defaults) if d_ is not None})
                out = []
                for cfn, cnode, _k in callers:
                    if not isinstance(cnode, ast.Call) or any(isinstance(x, ast.Starred) for x in cnode.args) or \
                            any(k.arg is None for k in cnode.keywords):
                        return None
                    b = prog.bind_call(cfn.module, cnode, f)
                    if e.id in b:
                        sub = elements(cfn, cfn.module, b[e.id], depth + 1)
                    elif e.id in dflts:
                        sub = elements(None, f.module, dflts[e.id], depth + 1)
                    else:
                        return None
                    if sub is None:
                        return None
                    out.extend(sub)
                return out
            if isinstance(e, (ast.Name, ast.Attribute)):
                if isinstance(e, ast.Name) and f is not None and (e.id in self.cg.env(f).vars or self.cg.env(f)._assign_sites.get(e.id)):
                    d = self.cg.env(f).single_def(e.id)
                    return elements(f, mod, d, depth + 1) if d is not None else None
                sym = prog.resolve_expr_symbol(mod, e)
                if isinstance(sym, tuple) and sym[0] == 'const':
                    return elements(None, sym[2], sym[1], depth + 1)
            return None
        return elements(fn, fn.module, binders[0], 0)

    def _enum_exhausted(self, atoms: List[tuple], binding) -> bool:
        """atoms contain `place != M` for every member M of the (non-optional) enum type of place."""
        by_place: Dict[tuple, Set[str]] = {}
        cls_of: Dict[tuple, str] = {}
        for a in atoms:
            if a[0] == 'enumeq' and a[3] is False:
                by_place.setdefault(a[1], set()).add(a[2][1])
                cls_of[a[1]] = a[2][0]
        for place, members in by_place.items():
            c = self.prog.classes.get(cls_of[place])
            if c is None or set(c.enum_members) - members:
                continue
            if place in binding and binding[place][1] is not None:
                cfn, arg, cnode = binding[place]
                t = self.abs.type_at(cfn, arg, cnode)
                if t == ('cls', c.fq):
                    return True
        return False

    # -- satisfiability of a path (exhaustive if/elif chains over enums) -----------------------------------------------
    def _revisit_guard(self, fn: FuncInfo, node: ast.AST) -> Optional[str]:
        """A raise under `id(x) in seen` inside a walk along construction-fixed links (termination.chain_walk_forever), where
        `seen` is a local set that only ever receives `id(x)` of the walked objects: the objects of the chain are pairwise
        distinct (no cycle), so the guard is false on every turn."""
        loop = self.flow.enclosing(node, (ast.While,))
        if loop is None:
            return None
        from .termination import chain_walk_forever, chain_walk_while
        info = chain_walk_forever(self.prog, self.cg, fn, loop)
        if info is None:
            w_ = chain_walk_while(self.prog, self.cg, fn, loop)
            info = (w_[0], None, w_[1]) if w_ else None
        if info is None:
            return None
        x = info[0]

        def id_of_x(e) -> bool:
            return isinstance(e, ast.Call) and isinstance(e.func, ast.Name) and e.func.id == 'id' and len(e.args) == 1 and \
                isinstance(e.args[0], ast.Name) and e.args[0].id == x and self.prog.resolve_name(fn.module, 'id') is None
        for c, pol in self.flow.path_conditions(node):
            if pol and isinstance(c, ast.Compare) and len(c.ops) == 1 and isinstance(c.ops[0], ast.In) and id_of_x(c.left) and \
                    isinstance(c.comparators[0], ast.Name):
                seen = c.comparators[0].id
                d = self.cg.env(fn).single_def(seen)
                empty = isinstance(d, ast.Call) and isinstance(d.func, ast.Name) and d.func.id == 'set' and not d.args
                writes_ok = True
                for y in iter_own_nodes(fn.node):
                    if isinstance(y, ast.Name) and y.id == seen and isinstance(y.ctx, ast.Load):
                        par = self.prog.parent(y)
                        if isinstance(par, ast.Compare):
                            continue
                        call = self.prog.parent(par) if isinstance(par, ast.Attribute) else None
                        if isinstance(par, ast.Attribute) and par.attr == 'add' and isinstance(call, ast.Call) and len(call.args) == 1 and \
                                id_of_x(call.args[0]) and self.flow.enclosing(call, (ast.While,)) is loop:
                            continue
                        writes_ok = False
                if empty and writes_ok:
                    return ('unreachable: `' + ast.unparse(c) + '` - ' + info[2] + '; `' + seen + '` holds the identities of the objects '
                            'passed so far, which are pairwise distinct')
        return None

    def path_unsat(self, fn: FuncInfo, node: ast.AST) -> Optional[str]:
        conds = self.flow.path_conditions(node)
        if not conds:
            return None
        atoms: Dict[str, ast.expr] = {}
        enum_groups: Dict[str, Dict[str, str]] = {}     # subject dump -> {member: atom key}
        enum_cls: Dict[str, ClassInfo] = {}

        def expand_property(e: ast.expr, depth: int = 0) -> ast.expr:
            """`x.p` with p a property of x's class whose body is one `return <expr over self>`: that expression for x."""
            if depth > 3 or not isinstance(e, ast.Attribute):
                return e
            t = strip_opt(self.abs.type_at(fn, e.value, None))
            c = self.prog.classes.get(t[1]) if t[0] == 'cls' else None
            m = self.prog.lookup_method(c, e.attr) if c is not None else None
            if m is None or not m.is_property:
                return e
            body = [st for st in m.node.body if not (isinstance(st, ast.Expr) and isinstance(st.value, ast.Constant))]
            if len(body) != 1 or not isinstance(body[0], ast.Return) or body[0].value is None:
                return e
            import copy
            me = m.params()[0].arg if m.params() else 'self'
            if any(isinstance(x, ast.Name) and x.id != me and isinstance(x.ctx, ast.Store) for x in ast.walk(body[0].value)):
                return e
            r = copy.deepcopy(body[0].value)

            class Sub(ast.NodeTransformer):
                def visit_Name(s2, nd):
                    return copy.deepcopy(e.value) if nd.id == me else nd
            r = Sub().visit(r)
            ast.fix_missing_locations(r)
            # names of the property's module must mean the same here: only enum members / attributes of the object are followed
            for x in ast.walk(r):
                if isinstance(x, ast.Name) and not any(x is y or ast.dump(x) == ast.dump(y) for y in ast.walk(e.value)):
                    if self.prog.resolve_name(m.module, x.id) is not self.prog.resolve_name(fn.module, x.id):
                        return e
            return r

        def lower(e: ast.expr):
            e = expand_property(e)
            if isinstance(e, ast.UnaryOp) and isinstance(e.op, ast.Not):
                return ('not', lower(e.operand))
            if isinstance(e, ast.BoolOp):
                return ('and' if isinstance(e.op, ast.And) else 'or', [lower(v) for v in e.values])
            if isinstance(e, ast.Compare) and len(e.ops) == 1 and isinstance(e.ops[0], (ast.Eq, ast.Is, ast.NotEq, ast.IsNot)):
                sym = self.prog.resolve_expr_symbol(fn.module, e.comparators[0])
                if isinstance(sym, tuple) and sym[0] == 'enum_member':
                    subj = ast.dump(e.left)
                    key = f'{subj}=={sym[2]}'
                    atoms[key] = e
                    t = self.abs.type_at(fn, e.left, None)
                    if t == ('cls', sym[1].fq):
                        enum_groups.setdefault(subj, {})[sym[2]] = key
                        enum_cls[subj] = sym[1]
                    r = ('atom', key)
                    return r if isinstance(e.ops[0], (ast.Eq, ast.Is)) else ('not', r)
                if isinstance(e.comparators[0], ast.Constant) and e.comparators[0].value is None:
                    key = 'none:' + ast.dump(e.left)
                    atoms[key] = e
                    r = ('atom', key)
                    return r if isinstance(e.ops[0], (ast.Eq, ast.Is)) else ('not', r)
            key = ast.dump(e)
            atoms[key] = e
            return ('atom', key)

        formula = ('and', [lower(c) if p else ('not', lower(c)) for c, p in conds])
        keys = sorted(atoms)
        if len(keys) > 12:
            return None
        if not enum_groups:
            free = keys
        # enumerate: for each enum subject choose exactly one member (or "another member" if not all members are
        # mentioned); other atoms are free booleans
        import itertools
        subj_list = sorted(enum_groups)
        choices = []
        for subj in subj_list:
            members = list(enum_cls[subj].enum_members)
            opts = [m for m in members if m in enum_groups[subj]]
            if set(members) - set(enum_groups[subj]):
                opts.append(None)      # some member that is not mentioned
            choices.append(opts)
        grouped = {k for g in enum_groups.values() for k in g.values()}
        free = [k for k in keys if k not in grouped]

        def ev(f, asg):
            if f[0] == 'atom':
                return asg[f[1]]
            if f[0] == 'not':
                return not ev(f[1], asg)
            if f[0] == 'and':
                return all(ev(x, asg) for x in f[1])
            return any(ev(x, asg) for x in f[1])

        for pick in itertools.product(*choices) if choices else [()]:
            base = {}
            for subj, chosen in zip(subj_list, pick):
                for m, k in enum_groups[subj].items():
                    base[k] = (m == chosen)
            for bits in itertools.product([False, True], repeat=len(free)):
                asg = dict(base)
                asg.update(zip(free, bits))
                if ev(formula, asg):
                    return None
        return 'unreachable: the preceding branch conditions are exhaustive (enumerated over ' \
               f'{len(keys)} atoms' + (', enum members of ' + ', '.join(sorted({c.name for c in enum_cls.values()})) if enum_cls else '') + ')'

    # -- propagation ----------------------------------------------------------------------------------------------------------------------
    def solve(self, reach: List[FuncInfo], max_iter: int = 30) -> int:
        A = self.abs
        reach_fq = {f.fq for f in reach}
        self.site_obs: Dict[Tuple[int, int], Ob] = {}
        for fn in reach:
            self.scan(fn)
            self.escapes.setdefault(fn.fq, {})
            self.cond.setdefault(fn.fq, [])
        for fn in reach:
            for o in self.obligations[fn.fq]:
                if o.discharged:
                    continue
                if o.explicit:
                    why = self.path_unsat(fn, o.node) or self._revisit_guard(fn, o.node)
                    if why:
                        o.discharged = why
                        continue
                if self.caught(fn, o.node, o.exc):
                    continue
                here = [f'{fn.fq}:{getattr(o.node, "lineno", 0)} {o.text}']
                atoms = self._atoms(fn, o.facts) if (o.explicit and not self.is_library_error(o.exc)) else None
                o.guard_opaque = bool(o.explicit and o.facts and atoms is None and not self.is_library_error(o.exc)
                                      and any(_is_relational(c) for c, _p in o.facts))
                if atoms:
                    self.cond[fn.fq].append(CondRaise(o.exc, atoms, fn, o, here))
                else:
                    self.escapes[fn.fq][(o.exc, o.ident)] = (o, here)
        changed = True
        it = 0
        while changed and it < max_iter:
            changed = False
            it += 1
            for fn in reach:
                esc = self.escapes[fn.fq]
                for callee, cnode, kind in self.cg.edges.get(fn.fq, []):
                    if callee.fq not in reach_fq:
                        continue
                    if kind.endswith('-any') and self.flow.enclosing(cnode, (ast.Raise,)) is not None:
                        continue   # formatting an arbitrary value into an exception message: assumed not to raise
                    if getattr(self, 'skip_edge', None) is not None and self.skip_edge(fn, callee, cnode, kind):
                        continue   # refuted by another engine (e.g. the stringified value is a decoded JSON value)
                    for (exc, oid), (o, chain) in list(self.escapes[callee.fq].items()):
                        if (exc, oid) in esc or self.caught(fn, cnode, exc):
                            continue
                        esc[(exc, oid)] = (o, [f'{fn.fq}:{getattr(cnode, "lineno", 0)} -> {callee.qualname}'] + chain)
                        changed = True
                    for cr in list(self.cond[callee.fq]):
                        res = self._apply_cond(fn, callee, cnode, kind, cr)
                        if res is None:
                            continue
                        if isinstance(res, CondRaise):
                            if not any(c.key() == res.key() for c in self.cond[fn.fq]):
                                self.cond[fn.fq].append(res)
                                changed = True
                        else:
                            site_ob = res
                            key = (site_ob.exc, site_ob.ident)
                            if key not in esc and not site_ob.discharged and not self.caught(fn, cnode, site_ob.exc):
                                esc[key] = (site_ob, [f'{fn.fq}:{getattr(cnode, "lineno", 0)} {site_ob.text}'])
                                changed = True
        return it

    def _field_default(self, cls: ClassInfo, name: str) -> Optional[Tuple[FuncInfo, Optional[ast.expr], None]]:
        flds = self.prog.class_fields(cls)
        if name not in flds:
            return None
        _ann, dflt, owner = flds[name]
        if dflt is None:
            return None
        if isinstance(dflt, ast.Call) and getattr(dflt.func, 'id', getattr(dflt.func, 'attr', '')) == 'field':
            for kw in dflt.keywords:
                if kw.arg == 'default':
                    dflt = kw.value
                    break
                if kw.arg == 'default_factory':
                    dflt = ast.Call(func=kw.value, args=[], keywords=[])
                    ast.fix_missing_locations(dflt)
                    break
            else:
                return None
        # evaluate the default in the context of some function of the owning module (any method will do)
        ctxfn = next(iter(owner.methods.values()), None) or next(iter(owner.module.functions.values()), None)
        if ctxfn is None:
            return None
        return (ctxfn, dflt, None)

    def _bind(self, fn: FuncInfo, callee: FuncInfo, cnode: ast.AST, kind: str) -> Dict[tuple, tuple]:
        """place -> (function in whose context the expression lives, expression or None, node for path facts)."""
        binding: Dict[tuple, tuple] = {}
        if not isinstance(cnode, ast.Call):
            return binding
        pnames = [a.arg for a in callee.params()]
        env = self.cg.env(fn)
        callees = env.resolve_call(cnode)
        ctor = next((c[1] for c in callees if isinstance(c, tuple) and c[0] == 'ctor'), None)
        if ctor is not None and callee.name == '__post_init__' and ctor.is_dataclass \
                and self.prog.lookup_method(ctor, '__init__') is None:
            fields = list(self.prog.class_fields(ctor).keys())
            for i, a in enumerate(cnode.args):
                if i < len(fields) and not isinstance(a, ast.Starred):
                    binding[('self', fields[i])] = (fn, a, cnode)
            for k in cnode.keywords:
                if k.arg:
                    binding[('self', k.arg)] = (fn, k.value, cnode)
            for f in fields:
                if ('self', f) not in binding:
                    d = self._field_default(ctor, f)
                    if d is not None:
                        binding[('self', f)] = d
            return binding
        offset = 1 if (callee.cls is not None and not callee.is_static and callee.parent is None and pnames
                       and pnames[0] in ('self', 'cls')) else 0
        if offset and ctor is None and isinstance(cnode, ast.Call) and not _bound_call(cnode):
            offset = 0          # the plain function taken out of a table / a name: `self` is passed explicitly
        if ctor is not None:
            offset = 1
        for i, a in enumerate(cnode.args):
            j = i + offset
            if j < len(pnames) and not isinstance(a, ast.Starred):
                binding[('param', pnames[j])] = (fn, a, cnode)
        for k in cnode.keywords:
            if k.arg in pnames:
                binding[('param', k.arg)] = (fn, k.value, cnode)
        a = callee.node.args
        pos = list(a.posonlyargs) + list(a.args)
        for p, d in zip(pos[len(pos) - len(a.defaults):], a.defaults):
            if ('param', p.arg) not in binding:
                binding[('param', p.arg)] = (callee, d, None)
        for p, d in zip(a.kwonlyargs, a.kw_defaults):
            if d is not None and ('param', p.arg) not in binding:
                binding[('param', p.arg)] = (callee, d, None)
        # receiver fields for bound method calls: self.f -> <recv>.f
        if offset and ctor is None and isinstance(cnode.func, ast.Attribute) and callee.cls is not None:
            recv = cnode.func.value
            if not (isinstance(recv, ast.Call) and isinstance(recv.func, ast.Name) and recv.func.id == 'super'):
                for f in self.prog.class_fields(callee.cls):
                    e = ast.Attribute(value=recv, attr=f, ctx=ast.Load())
                    ast.copy_location(e, cnode)
                    binding[('self', f)] = (fn, e, cnode)
        return binding

    def _apply_cond(self, fn: FuncInfo, callee: FuncInfo, cnode: ast.AST, kind: str, cr: CondRaise):
        """Evaluate a conditional raise of `callee` at a call site in `fn`.
        Returns None (refuted), a CondRaise in fn's terms, or an Ob located at the call site (not refuted)."""
        chain_head = f'{fn.fq}:{getattr(cnode, "lineno", 0)} -> {callee.qualname}'
        if kind == 'setter' and isinstance(cnode, ast.Attribute):
            stmt = self.flow.enclosing_stmt(cnode)
            binding = {}
            ps = [a.arg for a in callee.params()]
            if isinstance(stmt, ast.Assign) and len(ps) >= 2:
                binding[('param', ps[1])] = (fn, stmt.value, stmt)
        elif kind in ('add', 'iadd') and isinstance(cnode, (ast.BinOp, ast.AugAssign)):
            ps = [a.arg for a in callee.params()]
            binding = {}
            if len(ps) >= 2:
                other = cnode.right if isinstance(cnode, ast.BinOp) else cnode.value
                binding[('param', ps[1])] = (fn, other, cnode)
            recv = cnode.left if isinstance(cnode, ast.BinOp) else cnode.target
            if callee.cls is not None:
                for f in self.prog.class_fields(callee.cls):
                    e = ast.Attribute(value=recv, attr=f, ctx=ast.Load())
                    ast.copy_location(e, cnode)
                    binding[('self', f)] = (fn, e, cnode)
        elif kind != 'call' or not isinstance(cnode, ast.Call):
            return self._site_ob(fn, cnode, cr, 'reached through an implicit call (no arguments to evaluate)')
        else:
            binding = self._bind(fn, callee, cnode, kind)
        not_none = {a[1] for a in cr.atoms if a[0] == 'none' and a[2] is False}
        remaining = []
        # A validator applied to every ELEMENT of the function's own parameter / field (`for x in self.f: check(x)`) is a
        # precondition on the callers' argument: it must not be refuted by the element type of the annotation either.
        elem_atoms = self._element_atoms(fn, cr, binding)
        if elem_atoms is not None:
            own = self._atoms(fn, [(c, p) for c, p in self.abs.facts_at(cnode) if self._atom(fn, c, p) is not None]) or []
            return CondRaise(cr.exc, elem_atoms + own, fn, cr.origin, [chain_head] + cr.chain)
        # A validator that checks the function's own parameter / field must not be refuted by that parameter's
        # annotation: such atoms are deferred to the callers (unless fn has no caller in the package: then the
        # annotation is the stated precondition of the entry point).
        has_callers = fn.fq not in self.entry_fqs and any(
            k in ('call', 'add', 'iadd') for _c, _n, k in self.cg.callers(fn))
        for atom in cr.atoms:
            if has_callers and self._is_own_place(fn, atom, binding):
                remaining.append(atom)
                continue
            r = self._eval_atom(atom, binding, not_none)
            if r == NO:
                return None
            if r == MAYBE:
                remaining.append(atom)
        if self._enum_exhausted(cr.atoms, binding):
            return None
        if not remaining:
            return self._site_ob(fn, cnode, cr, 'every condition of the raise holds for these arguments')
        # re-export in fn's terms when the arguments are themselves places of fn
        translated = []
        dropped = []
        for atom in remaining:
            t = self._translate_atom(fn, atom, binding)
            if t is None:
                dropped.append(atom)
            else:
                translated.append(t)
        if not translated or not any(self._is_own_place(fn, a, binding) for a in remaining):
            # nothing can be deferred to the callers: the raise is possible at this call site -- unless the only
            # undecided conditions are type tests on values whose static type is unknown (Any): those are assumed
            # well-typed and counted, not reported
            if remaining and all(self._undecided_for_lack_of_type(a, binding) for a in remaining):
                self.assumed_well_typed.append((fn, cnode, '; '.join(self._atom_text(a, binding) for a in remaining)))
                return None
            txt = '; '.join(self._atom_text(a, binding) for a in (dropped or remaining))
            return self._site_ob(fn, cnode, cr, f'not refuted for this call: {txt}')
        # atoms that can be neither decided nor expressed in fn's terms are dropped (weakens the condition,
        # i.e. over-approximates the raise)
        own = self._atoms(fn, [(c, p) for c, p in self.abs.facts_at(cnode)
                               if self._atom(fn, c, p) is not None]) or []
        return CondRaise(cr.exc, translated + own, fn, cr.origin, [chain_head] + cr.chain)

    def _element_atoms(self, fn: FuncInfo, cr: CondRaise, binding) -> Optional[List[tuple]]:
        """When every atom of cr is an isinstance test on an argument that is the loop variable of an enclosing
        `for x in <own place>` (fn's parameter, or a field in __init__/__post_init__): the atoms re-expressed as
        ('pred', ('elements-isinstance', T), <own place>, pol).  None otherwise."""
        if fn.fq in self.entry_fqs or not any(k in ('call', 'add', 'iadd') for _c, _n, k in self.cg.callers(fn)):
            return None
        out = []
        for atom in cr.atoms:
            if atom[0] == 'none' and atom[2] is False:
                continue            # "and the value is not None": dropping it only widens the condition of the raise
            if atom[0] != 'isinstance':
                return None
            b = binding.get(atom[1])
            if b is None or b[0] is not fn or not isinstance(b[1], ast.Name):
                return None
            loop = None
            p_ = self.prog.parent(b[2]) if b[2] is not None else None
            while p_ is not None and p_ is not fn.node:
                if isinstance(p_, ast.For) and isinstance(p_.target, ast.Name) and p_.target.id == b[1].id:
                    loop = p_
                    break
                p_ = self.prog.parent(p_)
            if loop is None:
                return None
            base = self._place(fn, loop.iter)
            if base is None or (base[0] == 'self' and fn.name not in ('__post_init__', '__init__')):
                return None
            tt = atom[2]
            if tt and tt[0] == 'param':
                tb = binding.get(tt)
                tt = self.abs.resolve_type_expr(tb[0], tb[1]) if tb and tb[1] is not None else None
            if tt is None:
                return None
            out.append(('pred', ('elements-isinstance', tt), base, atom[3]))
        return out or None

    def _undecided_for_lack_of_type(self, atom: tuple, binding) -> bool:
        if not self.trust_untyped:
            return False
        if atom[0] == 'or':
            return all(self._undecided_for_lack_of_type(a, binding) for a in atom[1])
        if atom[0] not in ('isinstance', 'pred', 'none'):
            return False
        place = atom[2] if atom[0] == 'pred' else atom[1]
        b = binding.get(place)
        if b is None or b[1] is None:
            return False
        t = self.abs.type_at(b[0], b[1], b[2])
        return t == ANY or (t[0] in ('list', 'set') and t[1] == ANY and atom[0] == 'pred')

    def _is_own_place(self, fn: FuncInfo, atom: tuple, binding) -> bool:
        if atom[0] == 'or':
            return any(self._is_own_place(fn, a, binding) for a in atom[1])
        place = atom[2] if atom[0] == 'pred' else atom[1]
        b = binding.get(place)
        if b is None or b[1] is None or b[0] is not fn:
            return False
        pl = self._place(fn, b[1])
        if pl is None:
            return False
        if pl[0] == 'self' and fn.name not in ('__post_init__', '__init__'):
            return False        # fields of an existing object were validated when it was constructed
        return True

    def _translate_atom(self, fn: FuncInfo, atom: tuple, binding) -> Optional[tuple]:
        if atom[0] == 'or':
            inner = [self._translate_atom(fn, a, binding) for a in atom[1]]
            return ('or', inner) if all(a is not None for a in inner) else None

        def tr(place):
            b = binding.get(place)
            if b is None or b[1] is None or b[0] is not fn:
                return None
            return self._place(fn, b[1])
        if atom[0] == 'pred':
            np_ = tr(atom[2])
            return ('pred', atom[1], np_, atom[3]) if np_ else None
        np_ = tr(atom[1])
        if np_ is None:
            return None
        if atom[0] == 'isinstance' and atom[2] and atom[2][0] == 'param':
            tb = binding.get(atom[2])
            tt = self.abs.resolve_type_expr(tb[0], tb[1]) if tb and tb[1] is not None else None
            if tt is None:
                tp = tr(atom[2])
                if tp is None:
                    return None
                tt = tp
            return ('isinstance', np_, tt, atom[3])
        return (atom[0], np_) + tuple(atom[2:])

    def _atom_text(self, atom: tuple, binding) -> str:
        if atom[0] == 'or':
            return ' or '.join(self._atom_text(a, binding) for a in atom[1])
        place = atom[2] if atom[0] == 'pred' else atom[1]
        b = binding.get(place)
        arg = ast.unparse(b[1])[:50] if b and b[1] is not None else f'<{place[1]}>'
        pol = atom[-1]
        if atom[0] == 'none':
            return f'`{arg}` is {"" if pol else "not "}None'
        if atom[0] == 'truthy':
            return f'`{arg}` is {"non-empty/true" if pol else "empty/false"}'
        if atom[0] == 'isinstance':
            tt = atom[2]
            tn = tt[1].split('.')[-1] if tt and tt[0] == 'cls' else str(tt)
            return f'`{arg}` is {"" if pol else "not "}an instance of {tn}'
        if atom[0] == 'pred' and isinstance(atom[1], tuple):
            tn = atom[1][1][1].split('.')[-1] if atom[1][1] and atom[1][1][0] == 'cls' else str(atom[1][1])
            return f'every element of `{arg}` is {"" if pol else "not "}an instance of {tn}'
        if atom[0] == 'pred':
            return f'{atom[1]}(`{arg}`) is {pol}'
        if atom[0] == 'enumeq':
            return f'`{arg}` {"==" if pol else "!="} {atom[2][1]}'
        if atom[0] == 'cmp':
            sym_ = {'Lt': '<', 'LtE': '<=', 'Gt': '>', 'GtE': '>=', 'Eq': '==', 'NotEq': '!='}[atom[2][0]]
            return f'`{arg}` {sym_} {atom[2][1]} is {pol}'
        if atom[0] == 'typekey':
            return f'the class of `{arg}` is {"" if pol else "not "}one of {", ".join(k.split(".")[-1] for k in atom[2])}'
        return str(atom)

    def _site_ob(self, fn: FuncInfo, cnode: ast.AST, cr: CondRaise, why: str) -> Ob:
        key = (id(cnode), cr.origin.ident)
        if key not in self.site_obs:
            o = Ob(fn, cnode, 'precondition', cr.exc,
                   f'`{node_text(cnode)[:70]}` may raise {cr.exc.split(".")[-1]} ({cr.origin.fn.qualname}: '
                   f'{cr.origin.text}); {why}')
            o.discharged = self.reasoned(o)
            self.site_obs[key] = o
            self.obligations.setdefault(fn.fq, []).append(o)
        return self.site_obs[key]
