"""Verdict collection, findings, known-findings, evidence and exit codes.

Every rule of every property reports its *instances* here.  An instance is one
recognised construct of /repo's current source evaluated against one rule.  The
three-valued verdict of DESIGN section 1.2 is implemented by `Run.finish`.
"""
from __future__ import annotations

import ast
import hashlib
import json
import os
import re
import sys
import time
from dataclasses import dataclass, field
from typing import Any, Dict, List, Optional

VERIF_ROOT = os.path.dirname(os.path.dirname(os.path.abspath(__file__)))
HOLDS, VIOLATION, ERROR = 'HOLDS', 'VIOLATION', 'ANALYSIS-ERROR'


class AnalysisError(Exception):
    """The analysis met an anchor that vanished or an idiom it does not model."""


def norm_text(text: str) -> str:
    """Whitespace-normalised text used in finding keys (never line numbers)."""
    return re.sub(r'\s+', ' ', text).strip()


def node_text(node: Any) -> str:
    if isinstance(node, ast.AST):
        try:
            return norm_text(ast.unparse(node))
        except Exception:  # pragma: no cover
            return norm_text(ast.dump(node))
    return norm_text(str(node))


@dataclass
class Instance:
    rule: str
    module: str
    function: str
    construct: str
    verdict: str
    message: str = ''
    lineno: int = 0
    nontrivial: bool = True
    detail: Dict[str, Any] = field(default_factory=dict)

    def key(self, prop: str) -> Dict[str, str]:
        return {'property': prop, 'rule': self.rule, 'module': self.module,
                'function': self.function, 'construct': self.construct}


class Run:
    """One run of one property's check."""

    def __init__(self, prop: str, tier: str, seed: int, repo_src: str):
        self.prop = prop
        self.tier = tier
        self.seed = seed
        self.repo_src = repo_src
        self.instances: List[Instance] = []
        self.remarks: List[str] = []
        self.assumptions: List[str] = []
        self.explanation: str = ''
        self.stats: Dict[str, Any] = {}
        self.floors: Dict[str, int] = {}
        self.t0 = time.time()
        self.trusted: List[str] = []

    # -- recording ---------------------------------------------------------
    def add(self, rule: str, module: str, function: str, construct: Any, ok: Optional[bool],
            message: str = '', node: Any = None, nontrivial: bool = True, **detail) -> Instance:
        """Record one rule instance.  ok=True HOLDS, False VIOLATION, None ANALYSIS-ERROR."""
        verdict = HOLDS if ok is True else VIOLATION if ok is False else ERROR
        lineno = getattr(node, 'lineno', 0) if node is not None else getattr(construct, 'lineno', 0)
        inst = Instance(rule, module, function, node_text(construct), verdict, message,
                        lineno or 0, nontrivial, detail)
        self.instances.append(inst)
        return inst

    def holds(self, rule, module, function, construct, message='', node=None, **kw):
        return self.add(rule, module, function, construct, True, message, node, **kw)

    def violation(self, rule, module, function, construct, message='', node=None, **kw):
        return self.add(rule, module, function, construct, False, message, node, **kw)

    def error(self, rule, module, function, construct, message='', node=None, **kw):
        return self.add(rule, module, function, construct, None, message, node, **kw)

    def has_violation(self) -> bool:
        return any(i.verdict == VIOLATION for i in self.instances)

    def has_new_violation(self) -> bool:
        known = self._known()
        return any(i.verdict == VIOLATION and not any(self._matches(e, i) for e in known) for i in self.instances)

    def has_error(self) -> bool:
        return any(i.verdict == ERROR for i in self.instances)

    def floor(self, rule: str, minimum: int):
        """Instance floor (vacuity guard): a rule that recognises (almost) none of the instances confirmed by hand on the
        reference tree answers ANALYSIS-ERROR instead of passing vacuously.  `minimum` is the count confirmed on the reference
        tree; the guard trips below a third of it, because refactorings that remove duplication (five copies of a loop
        become one helper) legitimately shrink the number of textual sites.  What a recogniser cannot classify is reported
        by the recogniser itself, not through this count."""
        self.floors[rule] = max(1, minimum // 3)

    def remark(self, text: str):
        self.remarks.append(text)

    def assume(self, text: str):
        if text not in self.assumptions:
            self.assumptions.append(text)

    # -- finishing ---------------------------------------------------------
    def _known(self) -> List[dict]:
        path = os.path.join(VERIF_ROOT, 'known_findings.json')
        if not os.path.exists(path):
            return []
        with open(path) as fh:
            data = json.load(fh)
        return [e for e in data.get('findings', []) if e.get('status') == 'known'
                and e.get('property') == self.prop]

    @staticmethod
    def _matches(entry: dict, inst: Instance) -> bool:
        k = entry.get('key', {})
        for fld in ('rule', 'module', 'function', 'construct'):
            if fld in k and k[fld] != getattr(inst, fld):
                return False
        return True

    def finish(self, replay_filter: Optional[dict] = None) -> int:
        # floors
        counts: Dict[str, int] = {}
        for inst in self.instances:
            counts[inst.rule] = counts.get(inst.rule, 0) + 1
        known0 = self._known()
        any_violation = any(i.verdict == VIOLATION and not any(self._matches(e, i) for e in known0)
                            for i in self.instances)
        for rule, minimum in self.floors.items():
            # a floor guards against a vacuous pass; a run that already reports a (new) violation does not pass
            if counts.get(rule, 0) < minimum and not any_violation:
                self.error(rule, '-', '-', f'instance floor {minimum}',
                           f'only {counts.get(rule, 0)} instances recognised, '
                           f'{minimum} were confirmed by hand on the reference tree')

        known = self._known()
        violations = [i for i in self.instances if i.verdict == VIOLATION]
        errors = [i for i in self.instances if i.verdict == ERROR]
        if replay_filter is not None:
            violations = [i for i in violations if all(
                replay_filter.get(f) == getattr(i, f) for f in ('rule', 'module', 'function', 'construct'))]
        new, listed = [], []
        for inst in violations:
            entry = next((e for e in known if self._matches(e, inst)), None)
            (listed if entry else new).append((inst, entry))

        out_dir = os.path.join(VERIF_ROOT, 'out', 'replay')
        os.makedirs(out_dir, exist_ok=True)
        seen_known = set()
        for inst, entry in listed:
            ident = entry.get('id', entry.get('what', ''))
            if ident in seen_known:
                continue
            seen_known.add(ident)
            print(f'KNOWN-FINDING: property={self.prop} {entry.get("what", inst.message)}')
        for n, (inst, _) in enumerate(new):
            path = os.path.join(out_dir, f'{self.prop}-{n}.json')
            with open(path, 'w') as fh:
                json.dump({'key': inst.key(self.prop), 'message': inst.message,
                           'file': os.path.join(self.repo_src, inst.module.replace('.', '/') + '.py')
                           if inst.module not in ('-', '') else '',
                           'line_at_run': inst.lineno, 'detail': _jsonable(inst.detail)}, fh, indent=1)
            where = f'{inst.module}:{inst.lineno} {inst.function}'
            print(f'  rule {inst.rule} @ {where}: {inst.message}\n    construct: {inst.construct[:300]}')
            print(f'VIOLATION property={self.prop} replay={path}')
        for inst in errors:
            print(f'ANALYSIS-ERROR property={self.prop} rule={inst.rule} '
                  f'{inst.module}:{inst.lineno} {inst.function}: {inst.message} :: {inst.construct[:200]}')

        self._write_evidence(len(new), len(listed), len(errors))
        n_hold = sum(1 for i in self.instances if i.verdict == HOLDS)
        print(f'[{self.prop}] tier={self.tier} instances={len(self.instances)} hold={n_hold} '
              f'violations={len(new)} known={len(listed)} analysis_errors={len(errors)} '
              f'wall={time.time() - self.t0:.2f}s')
        # a reported violation is definite (each is justified on its own); analysis errors only say that something
        # else could not be decided
        if new:
            return 1
        return 2 if errors else 0

    def _write_evidence(self, n_new: int, n_known: int, n_err: int):
        if os.environ.get('DZNVERIF_NO_EVIDENCE'):
            return
        insts = self.instances
        distinct = {(i.rule, i.module, i.function, i.construct) for i in insts if i.nontrivial}
        per_rule: Dict[str, Dict[str, int]] = {}
        for i in insts:
            d = per_rule.setdefault(i.rule, {'instances': 0, 'holds': 0})
            d['instances'] += 1
            d['holds'] += 1 if i.verdict == HOLDS else 0
        # samples: a few per rule, violations first
        samples = []
        seen_rules: Dict[str, int] = {}
        for i in sorted(insts, key=lambda x: (x.verdict == HOLDS, x.rule)):
            if seen_rules.get(i.rule, 0) >= 2:
                continue
            seen_rules[i.rule] = seen_rules.get(i.rule, 0) + 1
            samples.append({'rule': i.rule, 'where': f'{i.module}:{i.function}', 'construct': i.construct[:240],
                            'verdict': i.verdict, 'note': i.message[:240]})
        cov = {
            'explanation': self.explanation or 'static rule set, see DESIGN.md',
            'evaluations': len(insts),
            'distinct_nontrivial': len(distinct),
            'rule': 'one evaluation = one recognised construct of /repo/src/dznpy checked against one rule; '
                    'non-trivial = the verdict needed more than a table lookup (guard search, path condition, '
                    'template abstraction, cross-table comparison); distinct by (rule, module, function, '
                    'normalised construct text)',
            'obligations': len(insts),
            'discharged': sum(1 for i in insts if i.verdict == HOLDS),
            'samples': samples[:24],
            'per_rule': per_rule,
            'known_findings_reported': n_known,
            'analysis_errors': n_err,
            'remarks': self.remarks,
            'trusted_base': self.trusted,
        }
        cov.update(self.stats)
        doc = {'property_id': self.prop, 'tier': self.tier, 'seed': self.seed, 'level': 'other',
               'coverage': cov, 'assumptions': self.assumptions,
               'wall_s': round(time.time() - self.t0, 3), 'violations': n_new}
        os.makedirs(os.path.join(VERIF_ROOT, 'evidence'), exist_ok=True)
        path = os.path.join(VERIF_ROOT, 'evidence', f'{self.prop}.json')
        with open(path, 'w') as fh:
            json.dump(doc, fh, indent=1, sort_keys=False)
            fh.write('\n')


def _jsonable(obj: Any) -> Any:
    try:
        json.dumps(obj)
        return obj
    except TypeError:
        if isinstance(obj, dict):
            return {str(k): _jsonable(v) for k, v in obj.items()}
        if isinstance(obj, (list, tuple, set)):
            return [_jsonable(v) for v in obj]
        return str(obj)


def digest_files(paths: List[str]) -> str:
    h = hashlib.sha256()
    for p in sorted(paths):
        with open(p, 'rb') as fh:
            h.update(p.encode())
            h.update(fh.read())
    return h.hexdigest()[:16]
