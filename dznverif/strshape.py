"""Abstract domain for the prefix strings of text_gen.Indentizer: a string is abstracted by
  * its length as a max-plus term over the symbols n (= self.spaces_count, n >= 0) and L (= len(glyph), L >= 1):
    a set of linear forms (a, b, c) meaning max(a*n + b*L + c), dominated forms removed (canonical),
  * what it starts with: 'glyph' | 'blank' | 'text' | None (unknown),
  * whether it consists of blanks only.
Expressions outside the modelled sub-language evaluate to None (the caller reports an analysis error, never a verdict).
No program code is run: the AST is interpreted in this abstract domain only.
"""
from __future__ import annotations

import ast
from dataclasses import dataclass
from typing import Callable, Dict, FrozenSet, Optional, Tuple

Form = Tuple[int, int, int]


def canon(forms) -> FrozenSet[Form]:
    fs = set(forms)
    keep = set()
    for f in fs:
        dominated = False
        for g in fs:
            if g == f:
                continue
            # f <= g for all n >= 0, L >= 1
            if g[0] >= f[0] and g[1] >= f[1] and (g[1] - f[1]) + (g[2] - f[2]) >= 0:
                if not (f[0] >= g[0] and f[1] >= g[1] and (f[1] - g[1]) + (f[2] - g[2]) >= 0 and f < g):
                    dominated = True
                    break
        if not dominated:
            keep.add(f)
    return frozenset(keep)


def t_const(c: int) -> FrozenSet[Form]:
    return frozenset({(0, 0, c)})


T_N = frozenset({(1, 0, 0)})
T_L = frozenset({(0, 1, 0)})


def t_add(a, b):
    return canon({(x[0] + y[0], x[1] + y[1], x[2] + y[2]) for x in a for y in b})


def t_max(a, b):
    return canon(set(a) | set(b))


def t_scale(a, k: int):
    return canon({(x[0] * k, x[1] * k, x[2] * k) for x in a}) if k >= 0 else None


def t_text(t) -> str:
    def one(f):
        parts = []
        if f[0]:
            parts.append('n' if f[0] == 1 else f'{f[0]}n')
        if f[1]:
            parts.append('L' if f[1] == 1 else f'{f[1]}L')
        if f[2] or not parts:
            parts.append(str(f[2]))
        return '+'.join(parts)
    fs = sorted(t)
    return one(fs[0]) if len(fs) == 1 else 'max(' + ', '.join(one(f) for f in fs) + ')'


@dataclass(frozen=True)
class AStr:
    length: FrozenSet[Form]
    starts: Optional[str]
    blank: bool
    has_glyph: bool = False


class Shapes:
    """Interpreter over one function; `resolve_const(name)` gives module-level string constants."""

    def __init__(self, fn_node: ast.AST, resolve_const: Callable[[str], Optional[str]],
                 n_expr: str = 'self.spaces_count', glyph_expr: str = 'self.bullet_list.glyph'):
        self.fn = fn_node
        self.resolve_const = resolve_const
        self.n_expr = n_expr
        self.glyph_expr = glyph_expr
        self.attr_defs: Dict[str, ast.expr] = {}       # self.<attr> -> last assigned expression seen so far (caller fills)

    def single_def(self, name: str) -> Optional[ast.expr]:
        defs = [n for n in ast.walk(self.fn) if isinstance(n, ast.Assign) and len(n.targets) == 1
                and isinstance(n.targets[0], ast.Name) and n.targets[0].id == name]
        return defs[0].value if len(defs) == 1 else None

    # -- integers ---------------------------------------------------------------------------------------------------------
    def int_term(self, e: ast.expr, depth: int = 0):
        if depth > 8:
            return None
        if isinstance(e, ast.Constant) and isinstance(e.value, int) and not isinstance(e.value, bool):
            return t_const(e.value)
        txt = ast.unparse(e)
        if txt == self.n_expr:
            return T_N
        if isinstance(e, ast.Name):
            d = self.single_def(e.id)
            return self.int_term(d, depth + 1) if d is not None else None
        if isinstance(e, ast.Call) and isinstance(e.func, ast.Name) and e.func.id == 'len' and len(e.args) == 1:
            s = self.string(e.args[0], depth + 1)
            return s.length if s is not None else None
        if isinstance(e, ast.Call) and isinstance(e.func, ast.Name) and e.func.id == 'max' and len(e.args) >= 2 and not e.keywords:
            ts = [self.int_term(a, depth + 1) for a in e.args]
            if any(t is None for t in ts):
                return None
            out = ts[0]
            for t in ts[1:]:
                out = t_max(out, t)
            return out
        if isinstance(e, ast.BinOp) and isinstance(e.op, ast.Add):
            a, b = self.int_term(e.left, depth + 1), self.int_term(e.right, depth + 1)
            return t_add(a, b) if a is not None and b is not None else None
        if isinstance(e, ast.BinOp) and isinstance(e.op, ast.Sub) and isinstance(e.right, ast.Constant) and isinstance(e.right.value, int):
            a = self.int_term(e.left, depth + 1)
            return t_add(a, t_const(-e.right.value)) if a is not None else None
        if isinstance(e, ast.BinOp) and isinstance(e.op, ast.Mult):
            for k, other in ((e.left, e.right), (e.right, e.left)):
                if isinstance(k, ast.Constant) and isinstance(k.value, int):
                    a = self.int_term(other, depth + 1)
                    return t_scale(a, k.value) if a is not None else None
        return None

    # -- strings ----------------------------------------------------------------------------------------------------------
    def string(self, e: ast.expr, depth: int = 0) -> Optional[AStr]:
        if depth > 8 or e is None:
            return None
        if isinstance(e, ast.Constant) and isinstance(e.value, str):
            return self._lit(e.value)
        txt = ast.unparse(e)
        if txt == self.glyph_expr:
            return AStr(T_L, 'glyph', False, True)
        if isinstance(e, ast.Name):
            d = self.single_def(e.id)
            if d is not None:
                return self.string(d, depth + 1)
            c = self.resolve_const(e.id)
            return self._lit(c) if c is not None else None
        if isinstance(e, ast.Attribute) and isinstance(e.value, ast.Name) and e.value.id == 'self' and e.attr in self.attr_defs:
            return self.string(self.attr_defs[e.attr], depth + 1)
        if isinstance(e, ast.JoinedStr):
            out = self._lit('')
            for v in e.values:
                if isinstance(v, ast.Constant):
                    part = self._lit(str(v.value))
                else:
                    part = self._formatted(v, depth)
                if part is None:
                    return None
                out = self._concat(out, part)
            return out
        if isinstance(e, ast.BinOp) and isinstance(e.op, ast.Add):
            a, b = self.string(e.left, depth + 1), self.string(e.right, depth + 1)
            return self._concat(a, b) if a is not None and b is not None else None
        if isinstance(e, ast.BinOp) and isinstance(e.op, ast.Mult):
            for s_e, k_e in ((e.left, e.right), (e.right, e.left)):
                s = self.string(s_e, depth + 1)
                if s is None:
                    continue
                k = self.int_term(k_e, depth + 1)
                if k is None or len(s.length) != 1:
                    return None
                (a, b, c), = s.length
                if a or b:
                    return None
                return AStr(t_scale(k, c), s.starts, s.blank, s.has_glyph)
            return None
        if isinstance(e, ast.Call) and isinstance(e.func, ast.Attribute) and e.func.attr in ('ljust', 'rjust', 'center') and e.args:
            s = self.string(e.func.value, depth + 1)
            w = self.int_term(e.args[0], depth + 1)
            if s is None or w is None:
                return None
            fill = ' '
            if len(e.args) > 1:
                f = self.string(e.args[1], depth + 1)
                if f is None or len(f.length) != 1:
                    return None
                fill = ' ' if f.blank else 'x'
            starts = s.starts if e.func.attr == 'ljust' else ('blank' if fill == ' ' else None)
            return AStr(t_max(s.length, w), starts, s.blank and fill == ' ', s.has_glyph)
        return None

    def _formatted(self, v: ast.FormattedValue, depth: int) -> Optional[AStr]:
        s = self.string(v.value, depth + 1)
        if s is None or v.conversion not in (-1, 115):
            return None
        if v.format_spec is None:
            return s
        spec = [x for x in v.format_spec.values if not (isinstance(x, ast.Constant) and x.value == '')]
        fill, align = ' ', '<'
        width = None
        i = 0
        if spec and isinstance(spec[0], ast.Constant):
            head = str(spec[0].value)
            if len(head) >= 2 and head[1] in '<>^=':
                fill, align, rest = head[0], head[1], head[2:]
            elif head[:1] in ('<', '>', '^', '='):
                fill, align, rest = ' ', head[0], head[1:]
            else:
                rest = head
            i = 1
            if rest:
                if not rest.isdigit() or len(spec) > 1:
                    return None
                width = t_const(int(rest))
        if width is None and i < len(spec):
            if isinstance(spec[i], ast.FormattedValue) and spec[i].format_spec is None and i == len(spec) - 1:
                width = self.int_term(spec[i].value, depth + 1)
                if width is None:
                    return None
            else:
                return None
        if width is None:
            return s
        starts = s.starts if align == '<' else ('blank' if fill == ' ' else None)
        return AStr(t_max(s.length, width), starts, s.blank and fill == ' ', s.has_glyph)

    @staticmethod
    def _lit(text: str) -> AStr:
        starts = None if not text else ('blank' if text[0] in ' \t' else 'text')
        return AStr(t_const(len(text)), starts, text.strip(' \t') == '', False)

    @staticmethod
    def _concat(a: AStr, b: AStr) -> AStr:
        zero = a.length == t_const(0)
        return AStr(t_add(a.length, b.length), b.starts if zero else a.starts, a.blank and b.blank, a.has_glyph or b.has_glyph)
