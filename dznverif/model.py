"""E1 - program model of /repo/src/dznpy: resolved syntax, class table, light types, call graph.

Nothing under /repo is imported or executed; everything is derived from `ast` parses of the
current working tree.
"""
from __future__ import annotations

import ast
import os
from dataclasses import dataclass, field
from typing import Any, Dict, Iterable, List, Optional, Set, Tuple

from .report import AnalysisError

PKG = 'dznpy'

# ---------------------------------------------------------------------------------------------
# types (light): tuples
#   ('cls', qualified class name) ('list', T) ('set', T) ('dict', K, V) ('opt', T) ('union', (T..))
#   ('str',) ('int',) ('bool',) ('none',) ('tuple', (T..)) ('any',) ('func', FuncInfo) ('type', clsname)
# ---------------------------------------------------------------------------------------------
ANY = ('any',)
BOTTOM = ('bottom',)     # "no information yet" (cyclic definition); ignored by union
STR = ('str',)
INT = ('int',)
BOOL = ('bool',)
NONE = ('none',)


def t_list(t): return ('list', t)
def t_set(t): return ('set', t)
def t_opt(t): return t if t[0] in ('opt', 'any', 'none') else ('opt', t)
def t_cls(name): return ('cls', name)


def strip_opt(t):
    return t[1] if t[0] == 'opt' else t


def union(ts: Iterable[tuple]) -> tuple:
    flat = []
    optional = False
    for t in ts:
        if t == BOTTOM:
            continue
        if t[0] == 'opt':
            optional = True
            t = t[1]
        if t[0] == 'union':
            flat.extend(t[1])
        else:
            flat.append(t)
    if optional:
        flat.append(NONE)
    uniq = []
    for t in flat:
        if t not in uniq:
            uniq.append(t)
    if not uniq:
        return ANY
    if ANY in uniq:
        return ANY
    if len(uniq) == 1:
        return uniq[0]
    if NONE in uniq:
        rest = [t for t in uniq if t != NONE]
        return t_opt(union(rest))
    return ('union', tuple(uniq))


@dataclass
class FuncInfo:
    name: str
    qualname: str            # e.g. "Builder.build", "create_cpp_portitf.sts"
    module: 'Module'
    node: ast.FunctionDef
    cls: Optional['ClassInfo'] = None
    parent: Optional['FuncInfo'] = None
    is_property: bool = False
    is_setter: bool = False
    is_static: bool = False
    nested: Dict[str, 'FuncInfo'] = field(default_factory=dict)

    @property
    def fq(self) -> str:
        return f'{self.module.name}:{self.qualname}'

    def params(self) -> List[ast.arg]:
        a = self.node.args
        return list(a.posonlyargs) + list(a.args) + list(a.kwonlyargs)

    def __hash__(self):
        return hash(self.fq)

    def __eq__(self, other):
        return isinstance(other, FuncInfo) and other.fq == self.fq


@dataclass
class ClassInfo:
    name: str
    module: 'Module'
    node: ast.ClassDef
    bases: List[str] = field(default_factory=list)          # qualified names where resolvable else raw
    is_dataclass: bool = False
    frozen: bool = False
    is_enum: bool = False
    is_exception: bool = False
    fields: Dict[str, Tuple[Optional[ast.expr], Optional[ast.expr]]] = field(default_factory=dict)
    methods: Dict[str, FuncInfo] = field(default_factory=dict)
    setters: Dict[str, FuncInfo] = field(default_factory=dict)
    enum_members: Dict[str, ast.expr] = field(default_factory=dict)

    @property
    def fq(self) -> str:
        return f'{self.module.name}.{self.name}'


@dataclass
class Module:
    name: str
    path: str
    src: str
    tree: ast.Module
    is_pkg: bool
    imports: Dict[str, Tuple[str, Optional[str]]] = field(default_factory=dict)  # local -> (module, symbol)
    classes: Dict[str, ClassInfo] = field(default_factory=dict)
    functions: Dict[str, FuncInfo] = field(default_factory=dict)
    assigns: Dict[str, ast.expr] = field(default_factory=dict)
    assign_nodes: Dict[str, ast.stmt] = field(default_factory=dict)

    @property
    def short(self) -> str:
        return self.name[len(PKG) + 1:] if self.name.startswith(PKG + '.') else self.name


def normalise_tree(tree: ast.AST) -> None:
    """Semantics-preserving normal form the rules are written against (so that they do not depend on these choices):
       N1  `x = E` immediately followed by `return x`, x used nowhere else   ->  `return E`
       N2  `if not A: B else: C` (a real else, not an elif)                  ->  `if A: C else: B`
       N3  'a' + f'{x}' + 'b'                                                ->  f'a{x}b'
       N4  `CONST == x` (constant-like operand on the left of == != is is not) ->  `x == CONST`
    Node positions of the kept nodes are unchanged."""
    for fn in [n for n in ast.walk(tree) if isinstance(n, (ast.FunctionDef, ast.AsyncFunctionDef))]:
        counts: Dict[str, int] = {}
        for n in ast.walk(fn):
            if isinstance(n, ast.Name):
                counts[n.id] = counts.get(n.id, 0) + 1
        pairs: Dict[str, int] = {}
        blocks = []
        for n in ast.walk(fn):
            for fld in ('body', 'orelse', 'finalbody'):
                blk = getattr(n, fld, None)
                if isinstance(blk, list) and blk and isinstance(blk[0], ast.stmt):
                    blocks.append(blk)
            if isinstance(n, ast.Try):
                for h in n.handlers:
                    blocks.append(h.body)
        cands = []
        for blk in blocks:
            for i in range(len(blk) - 1):
                a, r = blk[i], blk[i + 1]
                if isinstance(a, ast.Assign) and len(a.targets) == 1 and isinstance(a.targets[0], ast.Name) and \
                        isinstance(r, ast.Return) and isinstance(r.value, ast.Name) and r.value.id == a.targets[0].id:
                    pairs[a.targets[0].id] = pairs.get(a.targets[0].id, 0) + 1
                    cands.append((blk, a, r))
        for blk, a, r in cands:
            nm = a.targets[0].id
            if counts.get(nm, 0) == 2 * pairs[nm]:
                r.value = a.value
                blk.remove(a)
    for n in ast.walk(tree):
        if isinstance(n, ast.If) and isinstance(n.test, ast.UnaryOp) and isinstance(n.test.op, ast.Not) and n.orelse and \
                not (len(n.orelse) == 1 and isinstance(n.orelse[0], ast.If)):
            n.test = n.test.operand
            n.body, n.orelse = n.orelse, n.body

    # N3  concatenation of string literals / f-strings  ->  one f-string   ('a' + f'{x}' + 'b'  ->  f'a{x}b')
    def is_text(e):
        return isinstance(e, ast.JoinedStr) or (isinstance(e, ast.Constant) and isinstance(e.value, str))

    class Fold(ast.NodeTransformer):
        def visit_BinOp(self, node):
            self.generic_visit(node)
            if isinstance(node.op, ast.Add) and is_text(node.left) and is_text(node.right):
                vals = []
                for side in (node.left, node.right):
                    vals.extend(side.values if isinstance(side, ast.JoinedStr) else [side])
                merged = []
                for v in vals:
                    if isinstance(v, ast.Constant) and merged and isinstance(merged[-1], ast.Constant):
                        merged[-1] = ast.copy_location(ast.Constant(value=merged[-1].value + v.value), merged[-1])
                    else:
                        merged.append(v)
                if all(isinstance(v, ast.Constant) for v in merged):
                    return ast.copy_location(ast.Constant(value=''.join(v.value for v in merged)), node)
                return ast.copy_location(ast.JoinedStr(values=merged), node)
            return node
    Fold().visit(tree)

    # N4  `CONST == x` / `CONST != x` / `None is x`  ->  `x == CONST` ...   (the constant-like operand on the right)
    def const_like(e) -> bool:
        if isinstance(e, ast.Constant):
            return True
        if isinstance(e, ast.Name):
            return e.id.isupper()
        if isinstance(e, ast.Attribute):
            owner = e.value.attr if isinstance(e.value, ast.Attribute) else e.value.id if isinstance(e.value, ast.Name) else ''
            return e.attr.isupper() and owner[:1].isupper()      # Class.MEMBER, module.Class.MEMBER
        if isinstance(e, ast.UnaryOp) and isinstance(e.op, ast.USub):
            return const_like(e.operand)
        return False

    for n in ast.walk(tree):
        if isinstance(n, ast.Compare) and len(n.ops) == 1 and isinstance(n.ops[0], (ast.Eq, ast.NotEq, ast.Is, ast.IsNot)) and \
                const_like(n.left) and not const_like(n.comparators[0]):
            n.left, n.comparators[0] = n.comparators[0], n.left


class Program:
    def __init__(self, repo_src: str):
        self.repo_src = repo_src
        self.root = os.path.join(repo_src, PKG)
        self.modules: Dict[str, Module] = {}
        self.classes: Dict[str, ClassInfo] = {}       # fq -> ClassInfo
        self.functions: Dict[str, FuncInfo] = {}      # fq -> FuncInfo (all incl. methods, nested)
        self._parents: Dict[int, ast.AST] = {}
        self._load()
        self._index()

    # -- loading -------------------------------------------------------------------------
    def _load(self):
        if not os.path.isdir(self.root):
            raise AnalysisError(f'package root {self.root} not found')
        for dirpath, dirnames, filenames in os.walk(self.root):
            dirnames[:] = sorted(d for d in dirnames if d != '__pycache__')
            for fn in sorted(filenames):
                if not fn.endswith('.py'):
                    continue
                path = os.path.join(dirpath, fn)
                rel = os.path.relpath(path, self.repo_src)[:-3].replace(os.sep, '.')
                is_pkg = rel.endswith('.__init__')
                if is_pkg:
                    rel = rel[:-len('.__init__')]
                with open(path, encoding='utf-8') as fh:
                    src = fh.read()
                try:
                    tree = ast.parse(src, filename=path)
                except SyntaxError as exc:
                    raise AnalysisError(f'{path}: does not parse: {exc}') from exc
                normalise_tree(tree)
                self.modules[rel] = Module(rel, path, src, tree, is_pkg)

    def module_paths(self) -> Dict[str, str]:
        return {m.name: m.path for m in self.modules.values()}

    def _resolve_relative(self, mod: Module, level: int, name: Optional[str]) -> str:
        if level == 0:
            return name or ''
        parts = mod.name.split('.')
        if not mod.is_pkg:
            parts = parts[:-1]
        if level > 1:
            parts = parts[:len(parts) - (level - 1)]
        if name:
            parts = parts + name.split('.')
        return '.'.join(parts)

    def _index(self):
        for mod in self.modules.values():
            for node in ast.walk(mod.tree):
                for child in ast.iter_child_nodes(node):
                    self._parents[id(child)] = node
            for stmt in mod.tree.body:
                if isinstance(stmt, ast.ImportFrom):
                    target = self._resolve_relative(mod, stmt.level, stmt.module)
                    for alias in stmt.names:
                        local = alias.asname or alias.name
                        # "from . import x" / "from .. import cpp_gen": symbol may be a submodule
                        sub = f'{target}.{alias.name}' if target else alias.name
                        if sub in self.modules:
                            mod.imports[local] = (sub, None)
                        else:
                            mod.imports[local] = (target, alias.name)
                elif isinstance(stmt, ast.Import):
                    for alias in stmt.names:
                        mod.imports[alias.asname or alias.name.split('.')[0]] = (alias.name, None)
                elif isinstance(stmt, ast.ClassDef):
                    self._index_class(mod, stmt)
                elif isinstance(stmt, (ast.FunctionDef, ast.AsyncFunctionDef)):
                    self._index_function(mod, stmt, None, None)
                elif isinstance(stmt, ast.Assign):
                    for tgt in stmt.targets:
                        if isinstance(tgt, ast.Name):
                            mod.assigns[tgt.id] = stmt.value
                            mod.assign_nodes[tgt.id] = stmt
                elif isinstance(stmt, ast.AnnAssign) and isinstance(stmt.target, ast.Name) and stmt.value:
                    mod.assigns[stmt.target.id] = stmt.value
                    mod.assign_nodes[stmt.target.id] = stmt
        # resolve bases after all classes are known
        for cls in list(self.classes.values()):
            resolved = []
            for b in cls.node.bases:
                r = self.resolve_expr_symbol(cls.module, b)
                if isinstance(r, ClassInfo):
                    resolved.append(r.fq)
                else:
                    resolved.append(ast.unparse(b))
            cls.bases = resolved
        for cls in self.classes.values():
            anc = self.ancestors(cls)
            names = [a if isinstance(a, str) else a.fq for a in anc]
            cls.is_enum = any(n.endswith('Enum') for n in names)
            cls.is_exception = any(n.split('.')[-1] in ('Exception', 'BaseException', 'TypeError', 'ValueError',
                                                        'RuntimeError', 'KeyError', 'LookupError')
                                   or n.endswith('Error') for n in names if n != cls.fq)
            if cls.is_enum:
                for stmt in cls.node.body:
                    if isinstance(stmt, ast.Assign) and len(stmt.targets) == 1 and isinstance(stmt.targets[0], ast.Name):
                        cls.enum_members[stmt.targets[0].id] = stmt.value
        self._normalise_ctor_keywords()

    def bind_call(self, mod: Module, call: ast.Call) -> Dict[str, ast.expr]:
        """parameter / field name -> argument expression of a call of a package class or function, however the source
        spells it (positional or keyword).  Unresolved callees: the keywords only."""
        out: Dict[str, ast.expr] = {}
        sym = self.resolve_expr_symbol(mod, call.func)
        names: List[str] = []
        if isinstance(sym, ClassInfo):
            init = self.lookup_method(sym, '__init__')
            names = [a.arg for a in init.params()][1:] if init is not None else list(self.class_fields(sym))
        elif isinstance(sym, FuncInfo):
            names = [a.arg for a in sym.params()]
            if sym.cls is not None and not sym.is_static and names[:1] in (['self'], ['cls']) and not isinstance(
                    self.resolve_expr_symbol(mod, getattr(call.func, 'value', call.func)), ClassInfo):
                names = names[1:]
        for i, a in enumerate(call.args):
            if isinstance(a, ast.Starred):
                break
            if i < len(names):
                out[names[i]] = a
        for k in call.keywords:
            if k.arg:
                out[k.arg] = k.value
        return out

    def _normalise_ctor_keywords(self):
        """N5  constructor call of a package dataclass (generated __init__): the keyword arguments that continue the
        positional ones in field order become positional -  `CppPorts(ports=x)` -> `CppPorts(x)`.  The rules read the
        leading fields positionally and the rest by keyword, whichever way the source spells them."""
        for mod in self.modules.values():
            for n in ast.walk(mod.tree):
                if not isinstance(n, ast.Call) or not n.keywords or any(k.arg is None for k in n.keywords) or \
                        any(isinstance(a, ast.Starred) for a in n.args):
                    continue
                sym = self.resolve_expr_symbol(mod, n.func)
                if not isinstance(sym, ClassInfo) or not sym.is_dataclass or self.lookup_method(sym, '__init__') is not None:
                    continue
                fields = list(self.class_fields(sym))
                kw = {k.arg: k for k in n.keywords}
                i = len(n.args)
                while i < len(fields) and fields[i] in kw:
                    k = kw.pop(fields[i])
                    n.args.append(k.value)
                    self._parents[id(k.value)] = n
                    n.keywords.remove(k)
                    i += 1

    def _index_class(self, mod: Module, node: ast.ClassDef):
        cls = ClassInfo(node.name, mod, node)
        for dec in node.decorator_list:
            d = dec.func if isinstance(dec, ast.Call) else dec
            if (isinstance(d, ast.Name) and d.id == 'dataclass') or (isinstance(d, ast.Attribute) and d.attr == 'dataclass'):
                cls.is_dataclass = True
                if isinstance(dec, ast.Call):
                    for kw in dec.keywords:
                        if kw.arg == 'frozen' and isinstance(kw.value, ast.Constant) and kw.value.value is True:
                            cls.frozen = True
        for stmt in node.body:
            if isinstance(stmt, ast.AnnAssign) and isinstance(stmt.target, ast.Name):
                cls.fields[stmt.target.id] = (stmt.annotation, stmt.value)
            elif isinstance(stmt, (ast.FunctionDef, ast.AsyncFunctionDef)):
                self._index_function(mod, stmt, cls, None)
        mod.classes[node.name] = cls
        self.classes[cls.fq] = cls

    def _index_function(self, mod: Module, node, cls: Optional[ClassInfo], parent: Optional[FuncInfo]):
        if parent is not None:
            qual = f'{parent.qualname}.{node.name}'
        elif cls is not None:
            qual = f'{cls.name}.{node.name}'
        else:
            qual = node.name
        fi = FuncInfo(node.name, qual, mod, node, cls, parent)
        for dec in node.decorator_list:
            if isinstance(dec, ast.Name) and dec.id == 'property':
                fi.is_property = True
            if isinstance(dec, ast.Name) and dec.id == 'staticmethod':
                fi.is_static = True
            if isinstance(dec, ast.Attribute) and dec.attr == 'setter':
                fi.is_setter = True
        if fi.is_setter:
            fi.qualname = qual + '.setter'
            if cls is not None:
                cls.setters[node.name] = fi
        elif cls is not None and parent is None:
            cls.methods[node.name] = fi
        elif parent is not None:
            parent.nested[node.name] = fi
        else:
            mod.functions[node.name] = fi
        self.functions[fi.fq] = fi
        for sub in self._direct_nested_defs(node):
            self._index_function(mod, sub, cls, fi)

    @staticmethod
    def _direct_nested_defs(fn) -> List[ast.FunctionDef]:
        out = []
        stack = list(fn.body)
        while stack:
            n = stack.pop(0)
            if isinstance(n, (ast.FunctionDef, ast.AsyncFunctionDef)):
                out.append(n)
                continue
            if isinstance(n, (ast.ClassDef, ast.Lambda)):
                continue
            stack.extend(ast.iter_child_nodes(n))
        return out

    # -- navigation ------------------------------------------------------------------------
    def parent(self, node: ast.AST) -> Optional[ast.AST]:
        return self._parents.get(id(node))

    def enclosing_function(self, node: ast.AST) -> Optional[ast.AST]:
        p = self.parent(node)
        while p is not None and not isinstance(p, (ast.FunctionDef, ast.AsyncFunctionDef)):
            p = self.parent(p)
        return p

    def module(self, short_or_full: str) -> Module:
        name = short_or_full if short_or_full.startswith(PKG) else f'{PKG}.{short_or_full}'
        if name not in self.modules:
            raise AnalysisError(f'module {name} vanished')
        return self.modules[name]

    def func(self, module: str, qualname: str) -> FuncInfo:
        mod = self.module(module)
        fq = f'{mod.name}:{qualname}'
        if fq not in self.functions:
            raise AnalysisError(f'function {fq} vanished')
        return self.functions[fq]

    def try_func(self, module: str, qualname: str) -> Optional[FuncInfo]:
        try:
            return self.func(module, qualname)
        except AnalysisError:
            return None

    def cls(self, module: str, name: str) -> ClassInfo:
        mod = self.module(module)
        if name not in mod.classes:
            raise AnalysisError(f'class {mod.name}.{name} vanished')
        return mod.classes[name]

    def inferred_return_type(self, fi: 'FuncInfo') -> tuple:
        """Return type of an unannotated function: the union of the types of its return expressions."""
        cache = self.__dict__.setdefault('_ret_cache', {})
        if fi.fq in cache:
            return cache[fi.fq]
        cache[fi.fq] = ANY            # recursion guard
        rets = [n for n in iter_own_nodes(fi.node) if isinstance(n, ast.Return)]
        if not rets or any(r.value is None for r in rets):
            t = ANY if rets else NONE
        else:
            env = TypeEnv(self, fi)
            t = union([env.type_of(r.value) for r in rets])
        cache[fi.fq] = t
        return t

    def all_functions(self) -> List[FuncInfo]:
        return list(self.functions.values())

    def ancestors(self, cls: ClassInfo) -> List[Any]:
        """Linearised ancestors (self first); unresolved bases as strings."""
        out: List[Any] = [cls]
        for b in cls.bases:
            if b in self.classes:
                for a in self.ancestors(self.classes[b]):
                    if a not in out:
                        out.append(a)
            else:
                out.append(b)
        return out

    def is_subclass(self, cls_fq: str, base_fq: str) -> bool:
        if cls_fq == base_fq:
            return True
        c = self.classes.get(cls_fq)
        if not c:
            return False
        return any((a.fq if isinstance(a, ClassInfo) else a) == base_fq for a in self.ancestors(c))

    def lookup_method(self, cls: ClassInfo, name: str) -> Optional[FuncInfo]:
        for a in self.ancestors(cls):
            if isinstance(a, ClassInfo) and name in a.methods:
                return a.methods[name]
        return None

    def lookup_setter(self, cls: ClassInfo, name: str) -> Optional[FuncInfo]:
        for a in self.ancestors(cls):
            if isinstance(a, ClassInfo) and name in a.setters:
                return a.setters[name]
        return None

    def class_fields(self, cls: ClassInfo) -> Dict[str, Tuple[Optional[ast.expr], Optional[ast.expr], ClassInfo]]:
        out: Dict[str, Any] = {}
        for a in reversed(self.ancestors(cls)):
            if isinstance(a, ClassInfo):
                for k, (ann, dflt) in a.fields.items():
                    out[k] = (ann, dflt, a)
        return out

    # -- symbol resolution -------------------------------------------------------------------
    def resolve_name(self, mod: Module, name: str, _depth=0) -> Any:
        """Resolve a module-level name to ClassInfo | FuncInfo | Module | ('const', node, Module) |
        ('ext', 'module.symbol') | None."""
        if _depth > 8:
            return None
        if name in mod.classes:
            return mod.classes[name]
        if name in mod.functions:
            return mod.functions[name]
        if name in mod.assigns:
            val = mod.assigns[name]
            if isinstance(val, ast.Name):           # alias such as TB = TextBlock
                r = self.resolve_name(mod, val.id, _depth + 1)
                if r is not None:
                    return r
            return ('const', val, mod)
        if name in mod.imports:
            target, sym = mod.imports[name]
            if sym is None:
                if target in self.modules:
                    return self.modules[target]
                return ('ext', target)
            if target in self.modules:
                return self.resolve_name(self.modules[target], sym, _depth + 1) or ('ext', f'{target}.{sym}')
            return ('ext', f'{target}.{sym}')
        return None

    def resolve_expr_symbol(self, mod: Module, expr: ast.expr) -> Any:
        """Resolve Name / dotted Attribute (module.symbol) statically."""
        if isinstance(expr, ast.Name):
            return self.resolve_name(mod, expr.id)
        if isinstance(expr, ast.Attribute):
            base = self.resolve_expr_symbol(mod, expr.value)
            if isinstance(base, Module):
                return self.resolve_name(base, expr.attr)
            if isinstance(base, tuple) and base[0] == 'ext':
                return ('ext', f'{base[1]}.{expr.attr}')
            if isinstance(base, ClassInfo):
                if base.is_enum and expr.attr in base.enum_members:
                    return ('enum_member', base, expr.attr)
                m = self.lookup_method(base, expr.attr)
                if m:
                    return m
        return None

    # -- types ---------------------------------------------------------------------------------
    def ann_to_type(self, mod: Module, ann: Optional[ast.expr], self_cls: Optional[ClassInfo] = None) -> tuple:
        if ann is None:
            return ANY
        if isinstance(ann, ast.Constant):
            if ann.value is None:
                return NONE
            if isinstance(ann.value, str):
                try:
                    return self.ann_to_type(mod, ast.parse(ann.value, mode='eval').body, self_cls)
                except SyntaxError:
                    return ANY
            return ANY
        if isinstance(ann, ast.BoolOp) and isinstance(ann.op, ast.Or):   # "ast.System or ast.Component"
            return union(self.ann_to_type(mod, v, self_cls) for v in ann.values)
        if isinstance(ann, ast.BinOp) and isinstance(ann.op, ast.BitOr):
            return union([self.ann_to_type(mod, ann.left, self_cls), self.ann_to_type(mod, ann.right, self_cls)])
        if isinstance(ann, ast.Subscript):
            head = ann.value
            hname = head.attr if isinstance(head, ast.Attribute) else getattr(head, 'id', '')
            args = ann.slice.elts if isinstance(ann.slice, ast.Tuple) else [ann.slice]
            if hname in ('List', 'list', 'Sequence', 'Iterable'):
                return t_list(self.ann_to_type(mod, args[0], self_cls))
            if hname in ('Set', 'set', 'FrozenSet', 'frozenset'):
                return t_set(self.ann_to_type(mod, args[0], self_cls))
            if hname in ('Dict', 'dict'):
                return ('dict', self.ann_to_type(mod, args[0], self_cls),
                        self.ann_to_type(mod, args[1], self_cls) if len(args) > 1 else ANY)
            if hname == 'Optional':
                return t_opt(self.ann_to_type(mod, args[0], self_cls))
            if hname == 'Union':
                return union(self.ann_to_type(mod, a, self_cls) for a in args)
            if hname in ('Tuple', 'tuple'):
                return ('tuple', tuple(self.ann_to_type(mod, a, self_cls) for a in args))
            return ANY
        if isinstance(ann, (ast.Name, ast.Attribute)):
            nm = ann.id if isinstance(ann, ast.Name) else ann.attr
            if nm == 'Self' and self_cls is not None:
                return t_cls(self_cls.fq)
            prim = {'str': STR, 'int': INT, 'bool': BOOL, 'float': ('float',), 'Any': ANY, 'list': t_list(ANY),
                    'dict': ('dict', ANY, ANY), 'set': t_set(ANY), 'object': ANY, 'bytes': ('bytes',)}
            if isinstance(ann, ast.Name) and nm in prim and self.resolve_name(mod, nm) is None:
                return prim[nm]
            sym = self.resolve_expr_symbol(mod, ann)
            if isinstance(sym, ClassInfo):
                return t_cls(sym.fq)
            if isinstance(sym, tuple) and sym[0] == 'ext' and sym[1] in EXT_OBJECT_FACTORIES:
                return ('extobj', sym[1])        # annotated with a library class (deque, Pattern ...)
            return ANY
        return ANY

    def field_type(self, cls: ClassInfo, attr: str) -> Optional[tuple]:
        """Type of attribute `attr` on instances of cls: dataclass field, property or method."""
        fields = self.class_fields(cls)
        if attr in fields:
            ann, dflt, owner = fields[attr]
            t = self.ann_to_type(owner.module, ann, owner)
            if _default_is_none(dflt) and t != ANY:
                t = t_opt(t)        # "x: T = None" is Optional[T] whatever the annotation says
            return t
        m = self.lookup_method(cls, attr)
        if m is not None:
            if m.is_property:
                return self.ann_to_type(m.module, m.node.returns, m.cls)
            return ('func', m)
        # attributes assigned in __init__ with class-level annotation "_x: T" are in fields already;
        # otherwise look at self.<attr> = <ctor call> in __init__
        init = self.lookup_method(cls, '__init__')
        if init is not None:
            for n in ast.walk(init.node):
                if isinstance(n, ast.Assign):
                    for t in n.targets:
                        if isinstance(t, ast.Attribute) and isinstance(t.value, ast.Name) and t.value.id == 'self' \
                                and t.attr == attr:
                            return TypeEnv(self, init).type_of(n.value)
        return None


def _default_is_none(dflt) -> bool:
    if dflt is None:
        return False
    if isinstance(dflt, ast.Constant) and dflt.value is None:
        return True
    if isinstance(dflt, ast.Call) and getattr(dflt.func, 'id', getattr(dflt.func, 'attr', '')) == 'field':
        return any(k.arg == 'default' and isinstance(k.value, ast.Constant) and k.value.value is None
                   for k in dflt.keywords)
    return False


class TypeEnv:
    """Flow-insensitive local type environment of one function (incl. enclosing functions' locals)."""

    def __init__(self, prog: Program, fn: FuncInfo):
        self.prog = prog
        self.fn = fn
        self.mod = fn.module
        self.vars: Dict[str, tuple] = {}
        self._building: Set[str] = set()
        self._assign_sites: Dict[str, List[Tuple[str, ast.AST]]] = {}
        chain = []
        f: Optional[FuncInfo] = fn
        while f is not None:
            chain.append(f)
            f = f.parent
        for f in reversed(chain):
            self._collect(f)

    def _collect(self, f: FuncInfo):
        args = f.node.args
        params = f.params()
        for i, a in enumerate(params):
            if i == 0 and f.cls is not None and not f.is_static and f.parent is None and a.arg in ('self', 'cls'):
                self.vars[a.arg] = t_cls(f.cls.fq)
                continue
            self.vars[a.arg] = self.prog.ann_to_type(f.module, a.annotation, f.cls)
        pos = list(args.posonlyargs) + list(args.args)
        for p_, d in list(zip(pos[len(pos) - len(args.defaults):], args.defaults)) + \
                [(p_, d) for p_, d in zip(args.kwonlyargs, args.kw_defaults) if d is not None]:
            if _default_is_none(d) and self.vars.get(p_.arg, ANY) != ANY:
                self.vars[p_.arg] = t_opt(self.vars[p_.arg])
        if args.vararg:
            self.vars[args.vararg.arg] = ('tuple', ())
        if args.kwarg:
            self.vars[args.kwarg.arg] = ('dict', STR, ANY)
        own_nested = {id(n.node) for n in f.nested.values()}

        def walk(node):
            for child in ast.iter_child_nodes(node):
                if id(child) in own_nested or isinstance(child, (ast.ClassDef,)):
                    continue
                visit(child)
                walk(child)

        def visit(n):
            if isinstance(n, ast.Assign):
                for t in n.targets:
                    self._bind_target(t, ('expr', n.value))
            elif isinstance(n, ast.AnnAssign) and isinstance(n.target, ast.Name):
                self._assign_sites.setdefault(n.target.id, []).append(('ann', n.annotation))
            elif isinstance(n, ast.AugAssign) and isinstance(n.target, ast.Name):
                pass
            elif isinstance(n, (ast.For, ast.AsyncFor)):
                self._bind_target(n.target, ('elem', n.iter))
            elif isinstance(n, ast.comprehension):
                self._bind_target(n.target, ('elem', n.iter))
            elif isinstance(n, ast.With):
                for item in n.items:
                    if item.optional_vars is not None:
                        self._bind_target(item.optional_vars, ('expr', item.context_expr))
            elif isinstance(n, ast.ExceptHandler) and n.name:
                self._assign_sites.setdefault(n.name, []).append(('exc', n.type))
            elif isinstance(n, ast.NamedExpr):
                self._bind_target(n.target, ('expr', n.value))
            elif isinstance(n, ast.Lambda):
                la = n.args
                for a_ in list(la.posonlyargs) + list(la.args) + list(la.kwonlyargs) + \
                        [x for x in (la.vararg, la.kwarg) if x is not None]:
                    self._assign_sites.setdefault(a_.arg, []).append(('lambda', n))

        walk(f.node)

    def _bind_target(self, tgt, how):
        if isinstance(tgt, ast.Name):
            self._assign_sites.setdefault(tgt.id, []).append(how)
        elif isinstance(tgt, (ast.Tuple, ast.List)):
            for i, e in enumerate(tgt.elts):
                self._bind_target(e, ('item', how, i))

    def var_type(self, name: str) -> tuple:
        if name in self.vars and name not in self._assign_sites:
            return self.vars[name]
        if name in self._building:
            return BOTTOM
        if name in self._assign_sites:
            self._building.add(name)
            try:
                sites = self._assign_sites[name]
                if any(s[0] == 'ann' for s in sites):
                    sites = [s for s in sites if s[0] == 'ann']      # a declared local type wins
                ts = [self._site_type(s) for s in sites]
                if name in self.vars and self.vars[name] != ANY:
                    ts.append(self.vars[name])
                t = union(ts)
            finally:
                self._building.discard(name)
            return t
        return ANY

    def _site_type(self, site) -> tuple:
        kind = site[0]
        if kind == 'expr':
            return self.type_of(site[1])
        if kind == 'ann':
            return self.prog.ann_to_type(self.mod, site[1], self.fn.cls)
        if kind == 'elem':
            return self.elem_type(self.type_of(site[1]))
        if kind == 'item':
            base = self._site_type(site[1])
            if base[0] == 'tuple' and len(base[1]) > site[2]:
                return base[1][site[2]]
            return ANY
        if kind == 'exc':
            sym = self.prog.resolve_expr_symbol(self.mod, site[1]) if site[1] is not None else None
            return t_cls(sym.fq) if isinstance(sym, ClassInfo) else ANY
        return ANY

    @staticmethod
    def elem_type(t: tuple) -> tuple:
        t = strip_opt(t)
        if t[0] in ('list', 'set'):
            return t[1]
        if t[0] == 'dict':
            return t[1]
        if t[0] == 'str':
            return STR
        if t[0] == 'tuple' and t[1]:
            return union(t[1])
        return ANY

    def type_of(self, e: ast.expr) -> tuple:
        prog = self.prog
        if isinstance(e, ast.Constant):
            v = e.value
            if v is None:
                return NONE
            if isinstance(v, bool):
                return BOOL
            if isinstance(v, str):
                return STR
            if isinstance(v, int):
                return INT
            return ANY
        if isinstance(e, ast.JoinedStr):
            return STR
        if isinstance(e, ast.Name):
            if e.id in self.vars or e.id in self._assign_sites:
                return self.var_type(e.id)
            sym = prog.resolve_name(self.mod, e.id)
            if isinstance(sym, ClassInfo):
                return ('type', sym.fq)
            if isinstance(sym, FuncInfo):
                return ('func', sym)
            if isinstance(sym, Module):
                return ('module', sym.name)
            if isinstance(sym, tuple) and sym[0] == 'const':
                if isinstance(sym[1], ast.Call) and len(sym) > 2:
                    fs = prog.resolve_expr_symbol(sym[2], sym[1].func)
                    if isinstance(fs, tuple) and fs[0] == 'ext' and fs[1] in EXT_OBJECT_FACTORIES:
                        return ('extobj', fs[1])
                return TypeEnv._const_type(sym[1])
            return ANY
        if isinstance(e, ast.Attribute):
            sym = prog.resolve_expr_symbol(self.mod, e)
            if isinstance(sym, ClassInfo):
                return ('type', sym.fq)
            if isinstance(sym, FuncInfo) and not isinstance(prog.resolve_expr_symbol(self.mod, e.value), ClassInfo):
                return ('func', sym)
            if isinstance(sym, tuple) and sym[0] == 'enum_member':
                return t_cls(sym[1].fq)
            if isinstance(sym, tuple) and sym[0] == 'const':
                return TypeEnv._const_type(sym[1])
            bt = strip_opt(self.type_of(e.value))
            return self._attr_type(bt, e.attr)
        if isinstance(e, ast.Call):
            return self._call_type(e)
        if isinstance(e, (ast.List, ast.ListComp)):
            if isinstance(e, ast.List):
                return t_list(union(self.type_of(x) for x in e.elts) if e.elts else ANY)
            return t_list(self.type_of(e.elt))
        if isinstance(e, (ast.Set, ast.SetComp)):
            if isinstance(e, ast.Set):
                return t_set(union(self.type_of(x) for x in e.elts))
            return t_set(self.type_of(e.elt))
        if isinstance(e, (ast.Dict, ast.DictComp)):
            return ('dict', ANY, ANY)
        if isinstance(e, ast.GeneratorExp):
            return t_list(self.type_of(e.elt))
        if isinstance(e, ast.Tuple):
            return ('tuple', tuple(self.type_of(x) for x in e.elts))
        if isinstance(e, ast.IfExp):
            return union([self.type_of(e.body), self.type_of(e.orelse)])
        if isinstance(e, ast.BoolOp):
            return union(self.type_of(v) for v in e.values)
        if isinstance(e, ast.Compare):
            return BOOL
        if isinstance(e, ast.UnaryOp):
            return BOOL if isinstance(e.op, ast.Not) else self.type_of(e.operand)
        if isinstance(e, ast.BinOp):
            lt, rt = strip_opt(self.type_of(e.left)), strip_opt(self.type_of(e.right))
            if isinstance(e.op, ast.Add):
                if lt[0] == 'cls':
                    c = prog.classes.get(lt[1])
                    m = prog.lookup_method(c, '__add__') if c else None
                    if m:
                        return prog.ann_to_type(m.module, m.node.returns, m.cls)
                if lt[0] in ('str', 'list'):
                    return lt
                if rt[0] in ('str', 'list'):
                    return rt
            if isinstance(e.op, ast.Mult) and (lt[0] == 'str' or rt[0] == 'str'):
                return STR
            if isinstance(e.op, ast.Mod) and lt[0] == 'str':
                return STR
            if isinstance(e.op, (ast.BitOr, ast.BitAnd, ast.Sub, ast.BitXor)) and lt[0] == 'set':
                return lt
            if lt[0] == 'int' and rt[0] == 'int':
                return INT
            return ANY
        if isinstance(e, ast.Subscript):
            bt = strip_opt(self.type_of(e.value))
            if isinstance(e.slice, ast.Slice):
                return bt
            if bt[0] == 'list':
                return bt[1]
            if bt[0] == 'dict':
                return bt[2]
            if bt[0] == 'str':
                return STR
            if bt[0] == 'tuple' and isinstance(e.slice, ast.Constant) and isinstance(e.slice.value, int) \
                    and -len(bt[1]) <= e.slice.value < len(bt[1]):
                return bt[1][e.slice.value]
            return ANY
        if isinstance(e, ast.Lambda):
            return ANY
        if isinstance(e, ast.NamedExpr):
            return self.type_of(e.value)
        if isinstance(e, ast.Starred):
            return self.type_of(e.value)
        return ANY

    @staticmethod
    def _const_type(node: ast.expr) -> tuple:
        if isinstance(node, ast.Constant):
            if isinstance(node.value, str):
                return STR
            if isinstance(node.value, bool):
                return BOOL
            if isinstance(node.value, int):
                return INT
        if isinstance(node, ast.JoinedStr):
            return STR
        return ANY

    def _attr_type(self, bt: tuple, attr: str) -> tuple:
        prog = self.prog
        if bt[0] == 'union':
            return union(self._attr_type(strip_opt(t), attr) for t in bt[1])
        if bt[0] == 'cls':
            c = prog.classes.get(bt[1])
            if c is None:
                return ANY
            if c.is_enum and attr == 'value':
                vals = [TypeEnv._const_type(v) for v in c.enum_members.values()]
                return union(vals) if vals else ANY
            if c.is_enum and attr == 'name':
                return STR
            t = prog.field_type(c, attr)
            return t if t is not None else ANY
        if bt[0] == 'type':
            c = prog.classes.get(bt[1])
            if c is not None:
                if c.is_enum and attr in c.enum_members:
                    return t_cls(c.fq)
                m = prog.lookup_method(c, attr)
                if m:
                    return ('func', m)
            return ANY
        if bt[0] == 'str':
            return ('strmethod', attr)
        if bt[0] in ('list', 'set', 'dict'):
            return ('collmethod', bt, attr)
        return ANY

    def _call_type(self, e: ast.Call) -> tuple:
        prog = self.prog
        f = e.func
        if isinstance(f, ast.Name):
            builtin = {'str': STR, 'len': INT, 'int': INT, 'bool': BOOL, 'repr': STR, 'isinstance': BOOL,
                       'any': BOOL, 'all': BOOL, 'hasattr': BOOL, 'id': INT, 'hash': INT}
            if f.id in builtin and prog.resolve_name(self.mod, f.id) is None and f.id not in self.vars \
                    and f.id not in self._assign_sites:
                return builtin[f.id]
            if f.id in ('list', 'sorted', 'reversed') and prog.resolve_name(self.mod, f.id) is None:
                return t_list(self.elem_type(self.type_of(e.args[0])) if e.args else ANY)
            if f.id in ('set', 'frozenset') and prog.resolve_name(self.mod, f.id) is None:
                return t_set(self.elem_type(self.type_of(e.args[0])) if e.args else ANY)
            if f.id == 'dict' and prog.resolve_name(self.mod, f.id) is None:
                return ('dict', ANY, ANY)
            if f.id == 'filter' and len(e.args) == 2 and prog.resolve_name(self.mod, f.id) is None:
                return t_list(self.elem_type(self.type_of(e.args[1])))
            if f.id == 'deepcopy' or f.id == 'copy':
                return self.type_of(e.args[0]) if e.args else ANY
        fsym = prog.resolve_expr_symbol(self.mod, f) if isinstance(f, (ast.Name, ast.Attribute)) else None
        if isinstance(fsym, tuple) and fsym[0] == 'ext' and fsym[1] in EXT_OBJECT_FACTORIES:
            return ('extobj', fsym[1])
        ft = self.type_of(f)
        if ft[0] == 'type':
            return t_cls(ft[1])
        if ft[0] == 'func':
            fi: FuncInfo = ft[1]
            if fi.node.returns is None:
                return prog.inferred_return_type(fi)
            return prog.ann_to_type(fi.module, fi.node.returns, fi.cls)
        if ft[0] == 'strmethod':
            m = ft[1]
            if m in ('join', 'upper', 'lower', 'strip', 'rstrip', 'lstrip', 'format', 'replace', 'title',
                     'capitalize', 'ljust', 'rjust', 'center', 'zfill', 'removeprefix', 'removesuffix'):
                return STR
            if m in ('split', 'splitlines', 'rsplit'):
                return t_list(STR)
            if m in ('startswith', 'endswith', 'isdigit', 'isalpha', 'isidentifier'):
                return BOOL
            if m == 'encode':
                return ('bytes',)
            return ANY
        if ft[0] == 'collmethod':
            _, ct, m = ft
            if m in ('pop',):
                return ct[1] if ct[0] in ('list', 'set') else ct[2]
            if m in ('copy', 'union', 'intersection', 'difference'):
                return ct
            if m in ('get',):
                return t_opt(ct[2]) if ct[0] == 'dict' else ANY
            if m in ('values',):
                return t_list(ct[2]) if ct[0] == 'dict' else ANY
            if m in ('keys',):
                return t_list(ct[1]) if ct[0] == 'dict' else ANY
            if m in ('items',):
                return t_list(('tuple', (ct[1], ct[2]))) if ct[0] == 'dict' else ANY
            return NONE if m in ('append', 'extend', 'add', 'update', 'clear', 'sort', 'insert', 'remove') else ANY
        return ANY

    # -- call resolution -------------------------------------------------------------------
    def resolve_call(self, e: ast.Call) -> List[Any]:
        """Callees of a call expression: list of FuncInfo (package functions/methods; constructor ->
        __init__/__post_init__) plus ('ext', name) / ('builtin', name) markers."""
        prog = self.prog
        f = e.func
        out: List[Any] = []
        if isinstance(f, ast.Name) and f.id not in self.vars and f.id not in self._assign_sites:
            sym = prog.resolve_name(self.mod, f.id)
            # nested function of an enclosing function?
            fn: Optional[FuncInfo] = self.fn
            while fn is not None:
                if f.id in fn.nested:
                    return [fn.nested[f.id]]
                fn = fn.parent
            if sym is None:
                return [('builtin', f.id)]
            return self._sym_callees(sym)
        if isinstance(f, ast.Attribute) and isinstance(f.value, ast.Call) and isinstance(f.value.func, ast.Name) \
                and f.value.func.id == 'super' and self.fn.cls is not None:
            for a in prog.ancestors(self.fn.cls)[1:]:
                if isinstance(a, ClassInfo) and f.attr in a.methods:
                    return [a.methods[f.attr]]
            return [('builtin', f'object.{f.attr}')]
        ft = self.type_of(f)
        if ft[0] == 'type':
            c = prog.classes.get(ft[1])
            return self._ctor_callees(c) if c else []
        if ft[0] == 'func':
            return [ft[1]]
        if ft[0] == 'strmethod':
            return [('builtin', f'str.{ft[1]}')]
        if ft[0] == 'collmethod':
            return [('builtin', f'{ft[1][0]}.{ft[2]}')]
        if isinstance(f, ast.Attribute):
            sym = prog.resolve_expr_symbol(self.mod, f)
            if sym is not None:
                return self._sym_callees(sym)
            bt = strip_opt(self.type_of(f.value))
            mods = [bt] if bt[0] == 'module' else [strip_opt(t) for t in bt[1]] if bt[0] == 'union' else []
            if mods and all(t[0] == 'module' for t in mods):
                # e.g. a loop variable over a list of package modules
                for t in mods:
                    fn_ = prog.modules[t[1]].functions.get(f.attr) if t[1] in prog.modules else None
                    if fn_ is not None:
                        out.append(fn_)
                if len(out) == len(mods):
                    return out
                out = []
            if bt[0] == 'extobj':
                # a method of an object made by the standard library (compiled pattern, hash object, lock ...)
                return [('ext', f'{bt[1]}().{f.attr}')]
            if bt[0] == 'union':
                for t in bt[1]:
                    t = strip_opt(t)
                    if t[0] == 'cls' and t[1] in prog.classes:
                        m = prog.lookup_method(prog.classes[t[1]], f.attr)
                        if m:
                            out.append(m)
                if out:
                    return out
            if bt[0] == 'cls' and bt[1] in prog.classes:
                # known class without such method -> attribute holding a callable; unknown
                return [('unknown', f.attr)]
            # class-hierarchy-by-name fallback (over-approximation)
            for c in prog.classes.values():
                if f.attr in c.methods:
                    out.append(c.methods[f.attr])
            if out:
                return [('byname', f.attr)] + out
            if f.attr in BUILTIN_METHOD_NAMES:
                return [('builtin', f'?.{f.attr}')]
            return [('unknown', f.attr)]
        return [('unknown', ast.unparse(f))]

    def _sym_callees(self, sym) -> List[Any]:
        if isinstance(sym, FuncInfo):
            return [sym]
        if isinstance(sym, ClassInfo):
            return self._ctor_callees(sym)
        if isinstance(sym, tuple) and sym[0] == 'ext':
            return [sym]
        return [('unknown', str(sym))]

    def _ctor_callees(self, c: ClassInfo) -> List[Any]:
        out: List[Any] = [('ctor', c)]
        for nm in ('__init__', '__post_init__'):
            m = self.prog.lookup_method(c, nm)
            if m:
                out.append(m)
        if c.is_dataclass:
            for _k, (_a, dflt, owner) in self.prog.class_fields(c).items():
                # default_factory=<callable>
                if isinstance(dflt, ast.Call) and getattr(dflt.func, 'id', getattr(dflt.func, 'attr', '')) == 'field':
                    for kw in dflt.keywords:
                        if kw.arg == 'default_factory':
                            s = self.prog.resolve_expr_symbol(owner.module, kw.value)
                            if isinstance(s, FuncInfo):
                                out.append(s)
        return out


# standard-library calls whose result is an opaque library object (its methods are library code, never package methods)
EXT_OBJECT_FACTORIES = {'re.compile', 'collections.deque', 'logging.getLogger', 'hashlib.md5', 'hashlib.sha1', 'hashlib.sha256',
                        'threading.Lock', 'threading.RLock', 'pathlib.Path', 'pathlib.PurePath', 'pathlib.PurePosixPath',
                        'pathlib.PureWindowsPath', 'pathlib.PosixPath', 'pathlib.WindowsPath'}

BUILTIN_METHOD_NAMES = {
    # str
    'split', 'rsplit', 'splitlines', 'strip', 'lstrip', 'rstrip', 'join', 'format', 'encode', 'decode', 'upper',
    'lower', 'title', 'capitalize', 'startswith', 'endswith', 'replace', 'ljust', 'rjust', 'zfill', 'isdigit',
    'isalpha', 'isidentifier', 'find', 'partition', 'casefold', 'removeprefix', 'removesuffix',
    # containers
    'append', 'extend', 'insert', 'pop', 'remove', 'clear', 'sort', 'reverse', 'update', 'add', 'discard',
    'setdefault', 'popitem', 'copy', 'count', 'index', 'get', 'keys', 'values', 'items', 'union', 'intersection',
    'difference', 'issubset', 'issuperset', 'isdisjoint',
    # misc
    'hexdigest', 'digest', 'read', 'write', 'close', 'group', 'groups',
}


def iter_own_nodes(fn_node: ast.AST) -> Iterable[ast.AST]:
    """All nodes of a function body excluding nested function/class definitions (lambdas included)."""
    stack = list(ast.iter_child_nodes(fn_node))
    while stack:
        n = stack.pop()
        if isinstance(n, (ast.FunctionDef, ast.AsyncFunctionDef, ast.ClassDef)):
            continue
        yield n
        stack.extend(ast.iter_child_nodes(n))


class CallGraph:
    """Call edges incl. implicit ones: property reads, str()/f-string -> __str__, + -> __add__,
    += -> __iadd__, attribute stores -> setters."""

    def __init__(self, prog: Program):
        self.prog = prog
        self.edges: Dict[str, List[Tuple[FuncInfo, ast.AST, str]]] = {}
        self.unresolved: Dict[str, List[Tuple[ast.AST, str]]] = {}
        self.envs: Dict[str, TypeEnv] = {}
        self.n_attr_calls = 0
        self.n_attr_by_type = 0
        for fn in prog.all_functions():
            self._build(fn)
        self.refined_params: Dict[str, Dict[str, tuple]] = {}
        for _round in range(2):
            if not self._refine_untyped_params():
                break

    def _refine_untyped_params(self) -> bool:
        """An unannotated parameter that is stringified (`str(p)` / f-string hole) would reach every __str__ of the package.
        When the function is only ever *called* (never handed around as a value) and every call site inside the package
        passes a value of known type, the parameter has the union of those types on every path that starts at a package
        entry point.  (Callers outside the package are not on such a path.)"""
        prog = self.prog
        cands = [fn for fn in prog.all_functions()
                 if fn.parent is None and any(k.endswith('-any') for _c, _n, k in self.edges.get(fn.fq, []))]
        if not cands:
            return False
        sites: Dict[str, List[Tuple[FuncInfo, ast.Call]]] = {}
        for fq, edges in self.edges.items():
            for c, n, k in edges:
                if k == 'call' and isinstance(n, ast.Call):
                    sites.setdefault(c.fq, []).append((prog.functions[fq], n))
        value_uses: Set[str] = set()
        for f in prog.all_functions():
            for n in iter_own_nodes(f.node):
                if isinstance(n, (ast.Name, ast.Attribute)) and isinstance(getattr(n, 'ctx', None), ast.Load):
                    par = prog.parent(n)
                    if not (isinstance(par, ast.Call) and par.func is n):
                        value_uses.add(n.id if isinstance(n, ast.Name) else n.attr)
        changed = False
        for fn in cands:
            ss = sites.get(fn.fq, [])
            if not ss or fn.name in value_uses or fn.node.args.vararg or fn.node.args.kwarg:
                continue
            params = fn.params()
            bound = fn.cls is not None and not fn.is_static and params and params[0].arg in ('self', 'cls')
            env = self.env(fn)
            pos = list(fn.node.args.posonlyargs) + list(fn.node.args.args)
            defaults = dict(zip([a.arg for a in pos[len(pos) - len(fn.node.args.defaults):]], fn.node.args.defaults))
            defaults.update({a.arg: d for a, d in zip(fn.node.args.kwonlyargs, fn.node.args.kw_defaults) if d is not None})
            for i, a in enumerate(params):
                if (bound and i == 0) or a.annotation is not None or env.vars.get(a.arg, ANY) != ANY:
                    continue
                types: List[tuple] = []
                for caller, call in ss:
                    if any(isinstance(x, ast.Starred) for x in call.args) or any(k.arg is None for k in call.keywords):
                        types = []
                        break
                    shift = 1 if bound and isinstance(call.func, ast.Attribute) and not isinstance(
                        prog.resolve_expr_symbol(caller.module, call.func.value), ClassInfo) else 0
                    j = i - shift
                    arg = call.args[j] if 0 <= j < len(call.args) else next((k.value for k in call.keywords if k.arg == a.arg), None)
                    if arg is None:
                        arg = defaults.get(a.arg)
                    if arg is None:
                        types = []
                        break
                    t = self.env(caller).type_of(arg)
                    if strip_opt(t) == ANY:
                        types = []
                        break
                    types.append(t)
                if types:
                    env.vars[a.arg] = union(types)
                    self.refined_params.setdefault(fn.fq, {})[a.arg] = env.vars[a.arg]
                    changed = True
            if fn.fq in self.refined_params:
                saved = (self.n_attr_calls, self.n_attr_by_type)
                self._build(fn)
                self.n_attr_calls, self.n_attr_by_type = saved
        return changed

    def env(self, fn: FuncInfo) -> TypeEnv:
        if fn.fq not in self.envs:
            self.envs[fn.fq] = TypeEnv(self.prog, fn)
        return self.envs[fn.fq]

    def _build(self, fn: FuncInfo):
        env = self.env(fn)
        prog = self.prog
        edges: List[Tuple[FuncInfo, ast.AST, str]] = []
        unresolved: List[Tuple[ast.AST, str]] = []

        def dunder(t: tuple, name: str, node, kind: str):
            t = strip_opt(t)
            if t == ANY and name == '__str__':
                # str()/f-string of a value of unknown type: may be any package object
                for c in prog.classes.values():
                    if name in c.methods:
                        edges.append((c.methods[name], node, kind + '-any'))
                return
            ts = t[1] if t[0] == 'union' else [t]
            for x in ts:
                x = strip_opt(x)
                if x[0] == 'cls' and x[1] in prog.classes:
                    m = prog.lookup_method(prog.classes[x[1]], name)
                    if m:
                        edges.append((m, node, kind))

        for n in iter_own_nodes(fn.node):
            if isinstance(n, ast.Call):
                callees = env.resolve_call(n)
                if isinstance(n.func, ast.Attribute):
                    self.n_attr_calls += 1
                    if callees and not (isinstance(callees[0], tuple) and callees[0][0] in ('byname', 'unknown')):
                        self.n_attr_by_type += 1
                for c in callees:
                    if isinstance(c, FuncInfo):
                        edges.append((c, n, 'call'))
                    elif isinstance(c, tuple) and c[0] == 'unknown':
                        unresolved.append((n, c[1]))
                if isinstance(n.func, ast.Name) and n.func.id == 'str' and n.args:
                    dunder(env.type_of(n.args[0]), '__str__', n, 'str')
            elif isinstance(n, ast.FormattedValue):
                dunder(env.type_of(n.value), '__str__', n, 'fstr')
            elif isinstance(n, ast.BinOp) and isinstance(n.op, ast.Add):
                dunder(env.type_of(n.left), '__add__', n, 'add')
            elif isinstance(n, ast.AugAssign) and isinstance(n.op, ast.Add):
                dunder(env.type_of(n.target), '__iadd__', n, 'iadd')
            elif isinstance(n, ast.Attribute):
                bt = strip_opt(env.type_of(n.value))
                ts = bt[1] if bt[0] == 'union' else [bt]
                for x in ts:
                    x = strip_opt(x)
                    if x[0] == 'cls' and x[1] in prog.classes:
                        c = prog.classes[x[1]]
                        if isinstance(n.ctx, ast.Load):
                            m = prog.lookup_method(c, n.attr)
                            if m and m.is_property:
                                edges.append((m, n, 'property'))
                        elif isinstance(n.ctx, ast.Store):
                            s = prog.lookup_setter(c, n.attr)
                            if s:
                                edges.append((s, n, 'setter'))
        self.edges[fn.fq] = edges
        self.unresolved[fn.fq] = unresolved

    def callees(self, fn: FuncInfo) -> List[FuncInfo]:
        seen, out = set(), []
        for c, _n, _k in self.edges.get(fn.fq, []):
            if c.fq not in seen:
                seen.add(c.fq)
                out.append(c)
        # nested functions defined in fn are considered reachable when fn is (they are called locally
        # or handed out); conservative
        for nf in fn.nested.values():
            if nf.fq not in seen:
                seen.add(nf.fq)
                out.append(nf)
        return out

    def reachable(self, roots: List[FuncInfo]) -> List[FuncInfo]:
        seen: Dict[str, FuncInfo] = {}
        stack = list(roots)
        while stack:
            f = stack.pop()
            if f.fq in seen:
                continue
            seen[f.fq] = f
            stack.extend(self.callees(f))
        return list(seen.values())

    def callers(self, target: FuncInfo) -> List[Tuple[FuncInfo, ast.AST, str]]:
        out = []
        for fq, edges in self.edges.items():
            for c, n, k in edges:
                if c.fq == target.fq:
                    out.append((self.prog.functions[fq], n, k))
        return out

    def n_edges(self) -> int:
        return sum(len(v) for v in self.edges.values())
